"""C12 - HVSR results survive a write/read round trip after any history (object_io.py).

Structural obligations on writer and reader (parameter not rebound, derived columns taken from the object passed in, meta deep-copied,
peak search before mask installation in the reader); the text round trip itself (np.savetxt / np.loadtxt / json, the azimuth header regex)
is external and evaluated natively (bounded/C12.py).
"""
import ast

from pyvc.contract import StructTask


def writer(loader):
    fn, _ = loader.find("hvsrpy.object_io.write_hvsr_object_to_file")
    out = []
    rebinds = []
    for x in ast.walk(fn):
        tg = []
        if isinstance(x, ast.For):
            tg = [x.target]
        elif isinstance(x, ast.Assign):
            tg = x.targets
        elif isinstance(x, (ast.AugAssign, ast.AnnAssign)):
            tg = [x.target]
        for t in tg:
            for y in ast.walk(t):
                if isinstance(y, ast.Name) and y.id == "hvsr" and isinstance(y.ctx, ast.Store):
                    rebinds.append(x.lineno)
    out.append(("writer: the parameter `hvsr` is never rebound (derived columns are those of the object passed in)", not rebinds, f"rebound at lines {rebinds}"))
    stores = {ast.unparse(s.targets[0]): ast.unparse(s.value) for s in ast.walk(fn) if isinstance(s, ast.Assign) and ast.unparse(s.targets[0]) in ("array[:, -2]", "array[:, -1]", "array[:, 0]")}
    calls = [ast.unparse(s.value) for s in ast.walk(fn) if isinstance(s, ast.Assign) and ast.unparse(s.targets[0]) == "array[:, -2]"]
    out.append(("writer: column -2 is hvsr.mean_curve(distribution=distribution_mc) in every branch that stores it",
                bool(calls) and all(c == "hvsr.mean_curve(distribution=distribution_mc)" for c in calls), str(calls)))
    calls = [ast.unparse(s.value) for s in ast.walk(fn) if isinstance(s, ast.Assign) and ast.unparse(s.targets[0]) == "array[:, -1]"]
    out.append(("writer: column -1 is hvsr.std_curve(distribution=distribution_mc)", bool(calls) and all(c == "hvsr.std_curve(distribution=distribution_mc)" for c in calls), str(calls)))
    calls = [ast.unparse(s.value) for s in ast.walk(fn) if isinstance(s, ast.Assign) and ast.unparse(s.targets[0]) == "array[:, 0]"]
    out.append(("writer: column 0 is hvsr.frequency", bool(calls) and all(c == "hvsr.frequency" for c in calls), str(calls)))
    metas = [ast.unparse(s.value) for s in ast.walk(fn) if isinstance(s, ast.Assign) and ast.unparse(s.targets[0]) == "meta"]
    out.append(("writer: works on a deep copy of hvsr.meta (the object is not modified)", metas == ["deepcopy(hvsr.meta)"], str(metas)))
    return out


def reader(loader):
    fn, _ = loader.find("hvsrpy.object_io.read_hvsr_object_from_file")
    out = []
    branches = [b for b in ast.walk(fn) if isinstance(b, ast.If) and "meta['processing_method']" in ast.unparse(b.test)]
    for b in branches:
        which = ast.unparse(b.test).split("==")[-1].strip().strip("'")
        if which not in ("traditional", "azimuthal"):
            continue
        seq = []
        for st in b.body:
            src = ast.unparse(st)
            if "update_peaks_bounded" in src and not isinstance(st, (ast.For, ast.If)):
                seq.append("search")
            installs = [s for s in ast.walk(st) if isinstance(s, ast.Assign) and isinstance(s.targets[0], ast.Attribute) and s.targets[0].attr.endswith("boolean_mask")]
            if installs:          # statements that install a mask on an object (reading the stored lists, e.g. for their lengths, installs nothing)
                seq.append("masks")
                plain = all(isinstance(s, ast.Assign) for s in ast.walk(st) if isinstance(s, (ast.Assign, ast.AugAssign)) and "boolean_mask" in ast.unparse(s.targets[0] if isinstance(s, ast.Assign) else s.target))
                out.append((f"reader[{which}]: the stored masks are installed by plain assignment (the file's state, not a combination with the fresh search)", plain, src[:120]))
        out.append((f"reader[{which}]: the peak search with the stored range runs before the stored masks are installed", "search" in seq and "masks" in seq and seq.index("search") < seq.index("masks"), str(seq)))
    out.append(("reader: traditional and azimuthal branches found", len([1 for o in out if "runs before" in o[0]]) == 2, ""))
    return out


TASKS = [StructTask("writer", writer, textual=True), StructTask("reader", reader, textual=True)]

# ---------------------------------------------------------------------------------------------------------------------
# write_hvsr_object_to_file under contract (traditional, azimuthal and diffuse-field objects): which numbers reach np.savetxt in which column, and
# which masks reach the JSON header.  np.savetxt / json.dumps are external (A-TEXT-ROUNDTRIP, A-JSON): the models record what they are handed.  Strings
# (column titles, the header text) are opaque.  The statistics accessors are used through their contracts (C05 / C11).
import z3
from pyvc.core import I, R, B, A2, FuncV, ModV, DictV, StrV, Tup, NONE, ClsV, Undecided, ARef, lit
from pyvc.contract import Contract, FunctionTask, sym_obj
from pyvc import npmodel as npm
import contracts.acc_traditional as ACT

AR, AB = z3.ArraySort(I, R), z3.ArraySort(I, B)
KW, MW = ACT.K, ACT.M
FREQW = z3.Const("frequency", AR)


def _m_deepcopy(ex, st, args, kw, node):
    v = args[0]
    if isinstance(v, DictV):
        return DictV(dict(v.items))
    raise Undecided("deepcopy of something other than the meta dictionary")


def _m_json_dumps(ex, st, args, kw, node):
    st.env["__json_meta"] = args[0]
    return StrV("<json text>")


def _m_savetxt(ex, st, args, kw, node):
    st.env["__saved"] = Tup((args[0], args[1]))
    return NONE


_CLS = {c: ClsV(c) for c in ("HvsrTraditional", "HvsrAzimuthal", "HvsrDiffuseField")}
W_ENV = dict(_CLS, deepcopy=FuncV(_m_deepcopy, "deepcopy"), json=ModV("json", {"dumps": FuncV(_m_json_dumps, "json.dumps")}),
             np=ModV("np", dict(npm.NP.attrs, savetxt=FuncV(_m_savetxt, "np.savetxt"))))


def _saved(ex, st, a, k, n_):
    """SAVED(i, j): entry (i, j) of the array handed to np.savetxt"""
    ref = st.env["__saved"][1]
    return ex.sel2(ex.arr(st, ref), lit(a[0]), lit(a[1]))


def _saved_shape(ex, st, a, k, n_):
    d = ex.arr(st, st.env["__saved"][1])
    return z3.And(d.shape[0] == lit(a[0]), d.shape[1] == lit(a[1]))


def _json_entry(ex, st, a, k, n_):
    m = st.env["__json_meta"]
    return m.items[a[0].s]


W_GHOST = dict(ACT.GHOST, SAVED=FuncV(_saved, "SAVED"), saved_shape=FuncV(_saved_shape, "saved_shape"), JSON=FuncV(_json_entry, "JSON"),
               saved_to=FuncV(lambda ex, st, a, k, n_: z3.BoolVal(st.env["__saved"][0] is st.env["fname"]), "saved_to"))


def _wt_inputs(ex, st):
    fields = ACT._self_fields(ex, st)
    fields["frequency"] = ex.alloc_arr(st, (MW,), FREQW, "real", "param:hvsr.frequency", tag="frequency")
    fields["meta"] = DictV({"processing_method": StrV("traditional")}, owner="param:hvsr.meta")
    st.env["hvsr"] = sym_obj(ex, st, "HvsrTraditional", fields, owner="param:hvsr")
    st.env["fname"] = StrV("<fname>")
    st.env["distribution_mc"], st.env["distribution_fn"] = z3.Int("distribution_mc"), z3.Int("distribution_fn")
    st.env["K"], st.env["M"] = KW, MW
    return [KW >= 0, MW >= 1]


_h = lambda t: t.replace("self.", "hvsr.")
_VWh = "hvsr.valid_window_boolean_mask"
WRITE_T = Contract(
    qual="hvsrpy.object_io.write_hvsr_object_to_file", params=["hvsr", "fname", "distribution_mc", "distribution_fn"], ghost=W_GHOST, make_inputs=_wt_inputs,
    sym_lists={"data_headers_line": "str"},
    raises_only_if={"ValueError": f"count({_VWh}) <= 1"},
    ensures=["saved_to()", "saved_shape(M, K + 3)",
             "forall(i, 0, M, SAVED(i, 0) == hvsr.frequency[i])",
             "forall(i, 0, M, forall(k, 0, K, SAVED(i, 1 + k) == hvsr.amplitude[k, i]))",
             f"forall(i, 0, M, SAVED(i, K + 1) == MEAN_ROWS(distribution_mc, hvsr.amplitude, {_VWh}, i))",
             f"forall(i, 0, M, SAVED(i, K + 2) == STD_ROWS(distribution_mc, hvsr.amplitude, {_VWh}, i))",
             "len(JSON('valid_peak_boolean_mask')) == K and forall(k, 0, K, JSON('valid_peak_boolean_mask')[k] == hvsr.valid_peak_boolean_mask[k])",
             f"len(JSON('valid_window_boolean_mask')) == K and forall(k, 0, K, JSON('valid_window_boolean_mask')[k] == {_VWh}[k])"],
    modifies=[], notes="traditional object: column 0 the frequencies, column 1+k curve k, the last two columns the mean and standard-deviation curves of the accepted "
                       "windows for distribution_mc; the header carries both masks; the object is not written (ValueError when fewer than two windows are accepted: "
                       "the standard-deviation curve is undefined)")
WRITE_T.ghost_state = ("__saved", "__json_meta")
_TRAD_CALLS = {"HvsrTraditional.mean_curve": Contract(qual=ACT.MEAN_CURVE.qual, params=["self", "distribution"], ghost=ACT.GHOST, ensures=ACT.MEAN_CURVE.ensures,
                                                      modifies=[], make_result=ACT._curve_result),
               "HvsrTraditional.std_curve": Contract(qual=ACT.STD_CURVE.qual, params=["self", "distribution"], ghost=ACT.GHOST, ensures=ACT.STD_CURVE.ensures,
                                                     raises=ACT.STD_CURVE.raises, modifies=[], make_result=ACT._curve_result)}
TASKS.append(FunctionTask(WRITE_T, module_env=W_ENV, registry=_TRAD_CALLS, label="hvsrpy.object_io.write_hvsr_object_to_file[traditional]",
                          clauses=["the curves and derived columns written are those of the object; the header carries its masks"]))


# diffuse field: two columns
AMPD = z3.Const("amplitude", AR)


def _wd_inputs(ex, st):
    st.env["hvsr"] = sym_obj(ex, st, "HvsrDiffuseField", {"frequency": ex.alloc_arr(st, (MW,), FREQW, "real", "param:hvsr.frequency", tag="frequency"),
                                                          "amplitude": ex.alloc_arr(st, (MW,), AMPD, "real", "param:hvsr.amplitude", tag="amplitude"),
                                                          "meta": DictV({"processing_method": StrV("diffuse_field")}, owner="param:hvsr.meta")}, owner="param:hvsr")
    st.env["fname"] = StrV("<fname>")
    st.env["distribution_mc"], st.env["distribution_fn"] = z3.Int("distribution_mc"), z3.Int("distribution_fn")
    st.env["M"] = MW
    return [MW >= 1]


WRITE_D = Contract(qual="hvsrpy.object_io.write_hvsr_object_to_file", params=["hvsr", "fname", "distribution_mc", "distribution_fn"], ghost=W_GHOST, make_inputs=_wd_inputs,
                   ensures=["saved_to()", "saved_shape(M, 2)", "forall(i, 0, M, SAVED(i, 0) == hvsr.frequency[i] and SAVED(i, 1) == hvsr.amplitude[i])"],
                   modifies=[], notes="diffuse-field object: frequencies and the curve")
WRITE_D.ghost_state = ("__saved", "__json_meta")
TASKS.append(FunctionTask(WRITE_D, module_env=W_ENV, label="hvsrpy.object_io.write_hvsr_object_to_file[diffuse_field]", clauses=["the curve written is the object's"]))

# azimuthal object: the curves of every azimuth side by side in azimuth order, the weighted mean / standard-deviation curves of the azimuthal object
# itself in the last two columns (the loop variable must not shadow the object: F-11), per-azimuth masks in the header
import contracts.acc_azimuthal as ACZ
from pyvc import objects as _objs
from pyvc.objects import new_symlist, SObj

HZ, HVZ, MZ = ACZ.H, ACZ.HV, ACZ.M
NCUR = lambda a: _objs.fld("HvsrTraditional", "n_curves", I)(z3.Select(HVZ, a))
OFFN = z3.Function("OFFN", I, I)            # ghost: number of curves on the azimuths before azimuth a
_a1 = z3.Int("a!offn")
_s1, _t1 = z3.Ints("s!offn t!offn")
AX_OFFN = [OFFN(0) == 0, z3.ForAll([_a1], z3.Implies(_a1 >= 0, OFFN(_a1 + 1) == OFFN(_a1) + NCUR(_a1)), patterns=[OFFN(_a1 + 1)]),
           # monotone (consequence of the unfolding and n_curves >= 0; base/step lemma below)
           z3.ForAll([_s1, _t1], z3.Implies(z3.And(0 <= _s1, _s1 < _t1, _t1 <= HZ), OFFN(_s1) + NCUR(_s1) <= OFFN(_t1)), patterns=[z3.MultiPattern(OFFN(_s1), OFFN(_t1))]),
           z3.ForAll([_s1], z3.Implies(z3.And(0 <= _s1, _s1 <= HZ), OFFN(_s1) >= 0), patterns=[OFFN(_s1)])]


def _wa_inputs(ex, st):
    hv = new_symlist(ex, st, "HvsrTraditional", length=HZ, arr=HVZ, owner="param:hvsr.hvsrs", name="hvsrs")
    az = new_symlist(ex, st, None, length=HZ, arr=z3.Const("azimuths", AR), owner="param:hvsr.azimuths", name="azimuths")
    st.env["hvsr"] = sym_obj(ex, st, "HvsrAzimuthal", {"hvsrs": hv, "azimuths": az, "meta": DictV({"processing_method": StrV("azimuthal")}, owner="param:hvsr.meta")},
                             owner="param:hvsr")
    st.env["fname"] = StrV("<fname>")
    st.env["distribution_mc"], st.env["distribution_fn"] = z3.Int("distribution_mc"), z3.Int("distribution_fn")
    st.env["H"], st.env["M"] = HZ, MZ
    return [HZ >= 1, MZ >= 1, ACZ.NW >= 0] + ACZ._wf()


def _mask_is(ex, st, a, k, n_):
    """entry `a` of a list of masks is the mask `name` of per-azimuth object `a` (content over the whole index range)"""
    lst, idx, name = a
    d = st.heap[lst.sid]
    o = SObj("HvsrTraditional", z3.Select(HVZ, lit(idx)), owner="param:hvsr.hvsrs")
    s2 = st.fork()
    m = ex.arr(s2, _objs.sobj_getattr(ex, s2, o, name.s))
    return z3.Select(d.arr, lit(idx)) == z3.simplify(m.data)


def _amp_at(ex, st, a, k, n_):
    o = SObj("HvsrTraditional", z3.Select(HVZ, lit(a[0])), owner="param:hvsr.hvsrs")
    s2 = st.fork()
    return ex.sel2(ex.arr(s2, _objs.sobj_getattr(ex, s2, o, "amplitude")), lit(a[1]), lit(a[2]))


WA_GHOST = dict(ACZ.GHOST, SAVED=FuncV(_saved, "SAVED"), saved_shape=FuncV(_saved_shape, "saved_shape"), JSON=FuncV(_json_entry, "JSON"),
                saved_to=W_GHOST["saved_to"], OFFN=OFFN, NCUR=lambda a: NCUR(a), mask_is=FuncV(_mask_is, "mask_is"), AMP_AT=FuncV(_amp_at, "AMP_AT"),
                FREQ=lambda i: z3.Select(ACZ.FREQ, i))
WA_GHOST["ARR"] = FuncV(lambda ex, st, a, k, n_: ex.sel2(ex.arr(st, st.env["array"]), lit(a[0]), lit(a[1])), "ARR")
WA_GHOST["arr_at"] = FuncV(lambda ex, st, a, k, n_: ex.sel2(ex.arr(st, a[0]), lit(a[1]), lit(a[2])), "arr_at")
_COLS = "forall(a, 0, {n}, forall(k, 0, NCUR(a), forall(i, 0, M, {arr}(i, 1 + OFFN(a) + k) == AMP_AT(a, k, i))))"
_VWs, _VPs = "'valid_window_boolean_mask'", "'valid_peak_boolean_mask'"
WRITE_A = Contract(
    qual="hvsrpy.object_io.write_hvsr_object_to_file", params=["hvsr", "fname", "distribution_mc", "distribution_fn"], ghost=WA_GHOST, axioms=AX_OFFN, make_inputs=_wa_inputs,
    sym_lists={"data_headers_line": "str", "valid_window_boolean_masks": "boolarr", "valid_peak_boolean_masks": "boolarr"}, stable_shapes=("array",),
    ensures=["saved_to()", "saved_shape(M, OFFN(H) + 3)",
             "forall(i, 0, M, SAVED(i, 0) == FREQ(i))",
             _COLS.format(n="H", arr="SAVED"),
             f"forall(i, 0, M, SAVED(i, OFFN(H) + 1) == WMEAN(distribution_mc, 'amplitude', {_VWs}, i))",
             f"forall(i, 0, M, SAVED(i, OFFN(H) + 2) == WSTD(distribution_mc, 'amplitude', {_VWs}, i))",
             f"len(JSON('valid_window_boolean_masks')) == H and forall(a, 0, H, mask_is(JSON('valid_window_boolean_masks'), a, {_VWs}))",
             f"len(JSON('valid_peak_boolean_masks')) == H and forall(a, 0, H, mask_is(JSON('valid_peak_boolean_masks'), a, {_VPs}))"],
    loops={0: ["len(valid_window_boolean_masks) == _k0 and len(valid_peak_boolean_masks) == _k0",
               f"forall(a, 0, _k0, mask_is(valid_window_boolean_masks, a, {_VWs}) and mask_is(valid_peak_boolean_masks, a, {_VPs}))"],
           1: ["len(data_headers_line) == 1 + OFFN(_k1)"],
           2: ["len(data_headers_line) == 1 + OFFN(_k1) + _k2"],
           3: ["start_index == 1 + OFFN(_k3)", "forall(i, 0, M, arr_at(array, i, 0) == FREQ(i))",
               _COLS.format(n="_k3", arr="ARR")]},
    modifies=[], notes="azimuthal object: column 0 the common frequencies, then the curves of azimuth 0, 1, ... in list order, then the weighted mean and standard-deviation "
                       "curves of the azimuthal object; the header carries the masks of every azimuth in the same order")
WRITE_A.ghost_state = ("__saved", "__json_meta")
_AZ_CALLS = {"HvsrAzimuthal.frequency": ACZ._REGC["HvsrAzimuthal.frequency"],
             "HvsrAzimuthal.mean_curve": Contract(qual=ACZ.MEAN_CURVE.qual, params=["self", "distribution"], ghost=ACZ.GHOST, ensures=ACZ.MEAN_CURVE.ensures, modifies=[],
                                                  make_result=ACZ.MEAN_CURVE.make_result),
             "HvsrAzimuthal.std_curve": Contract(qual=ACZ.STD_CURVE.qual, params=["self", "distribution"], ghost=ACZ.GHOST, ensures=ACZ.STD_CURVE.ensures, modifies=[],
                                                 make_result=ACZ.STD_CURVE.make_result)}
TASKS.append(FunctionTask(WRITE_A, module_env=W_ENV, registry=_AZ_CALLS, label="hvsrpy.object_io.write_hvsr_object_to_file[azimuthal]",
                          clauses=["azimuthal: every azimuth's curves in order, the azimuthal object's own derived columns, per-azimuth masks in the header"]))
_n = z3.Int("n!l")
from pyvc.contract import LemmaTask
TASKS += [LemmaTask("OFFN-monotone-step", [_n >= 0, NCUR(_n) >= 0, OFFN(_n + 1) == OFFN(_n) + NCUR(_n)], z3.And(OFFN(_n) + NCUR(_n) <= OFFN(_n + 1), z3.Implies(OFFN(_n) >= 0, OFFN(_n + 1) >= 0)),
                    "step of the induction behind the monotonicity / non-negativity axioms of the column offsets (A-INDUCTION)")]

# ---------------------------------------------------------------------------------------------------------------------
# read_hvsr_object_from_file under contract for traditional and diffuse-field files: which columns of the loaded array become the curves, in which
# order the peak search and the installation of the stored masks happen, and which stored values they use.  File access, json.loads, np.loadtxt
# and the text of the lines are external / opaque (A-TEXT-ROUNDTRIP, A-JSON): the file is "some leading header lines, a JSON dictionary META in them,
# and an array ARRAY".  The azimuthal branch (column grouping by the azimuth in the column titles: regular expression) stays bounded.
NL_ = z3.Int("n_lines")
ISHDR = z3.Function("line_starts_with_hash", I, B)
NCOL = z3.Int("n_columns")
ARRAYF = z3.Const("loaded_array", A2(R))
MLO, MHI, MPROM = z3.Reals("stored_f_low stored_f_high stored_prominence")
MVW, MVP = z3.Const("stored_valid_window_mask", AB), z3.Const("stored_valid_peak_mask", AB)


class _Line(StrV):
    def __init__(self, idx):
        super().__init__("<line>")
        self.startswith_term = lambda prefix, _i=idx: ISHDR(_i)


def _m_open_r(ex, st, args, kw, node):
    from pyvc.core import SeqV
    f = sym_obj(ex, st, "File", {"name": args[0]}, owner="fresh")
    return f


def _m_readlines(ex, st, args, kw, node):
    from pyvc.core import SeqV
    return SeqV(NL_, lambda ex_, st_, i: _Line(i), owner="fresh", name="lines")


def _meta_value(kind, kw):
    items = {"processing_method": StrV(kind), "search_range_in_hz": Tup((MLO, MHI)),
             "find_peaks_kwargs": NONE if kw == "None" else DictV({"prominence": MPROM})}
    return items


def _m_loads(kind, kw):
    def f(ex, st, args, kw_, node):
        items = _meta_value(kind, kw)
        if kind == "traditional":
            items["valid_window_boolean_mask"] = ex.alloc_arr(st, (NCOL - 3,), MVW, "bool", "fresh", tag="stored_vw")
            items["valid_peak_boolean_mask"] = ex.alloc_arr(st, (NCOL - 3,), MVP, "bool", "fresh", tag="stored_vp")
        d = DictV(items)
        st.env["__meta"] = d
        return d
    return FuncV(f, "json.loads")


def _m_loadtxt(ex, st, args, kw, node):
    return ex.alloc_arr(st, (MW, NCOL), ARRAYF, "real", "fresh", tag="loaded")


def _m_ctor(cls):
    def f(ex, st, args, kw, node):
        fr, a = ex.arr(st, args[0]), ex.arr(st, args[1])
        fields = {"frequency": ex.alloc_arr(st, fr.shape, fr.data, "real", "fresh", tag="frequency"),
                  "amplitude": ex.alloc_arr(st, a.shape, a.data, "real", "fresh", tag="amplitude"), "meta": kw.get("meta", DictV({})), "__searched": NONE}
        if cls == "HvsrTraditional":
            n = a.shape[0]
            fields["valid_window_boolean_mask"] = ex.alloc_arr(st, (n,), z3.K(I, z3.BoolVal(True)), "bool", "fresh", tag="vw")
            fields["valid_peak_boolean_mask"] = ex.alloc_arr(st, (n,), z3.K(I, z3.BoolVal(True)), "bool", "fresh", tag="vp")
        return ex.alloc_obj(st, cls, fields, "fresh")
    return FuncV(f, cls)


def _m_search(ex, st, args, kw, node):
    """update_peaks_bounded on the freshly built object (contract: C08): records the range and filters used; for a traditional object the masks afterwards are
    whatever the search found (both masks = 'has a peak in the range'), i.e. unknown here"""
    o = st.heap[args[0].oid]
    o.fields["__searched"] = Tup((kw.get("search_range_in_hz", Tup((NONE, NONE))), kw.get("find_peaks_kwargs", NONE)))
    if o.cls == "HvsrTraditional":
        for nm in ("valid_window_boolean_mask", "valid_peak_boolean_mask"):
            d = ex.arr(st, o.fields[nm])
            o.fields[nm] = ex.alloc_arr(st, d.shape, ex.fresh("after_search_" + nm, AB), "bool", "fresh", tag=nm)
    return NONE


def _rd_inputs(ex, st):
    st.env["fname"] = StrV("<fname>")
    st.env["M"], st.env["NCOL"] = MW, NCOL
    return [MW >= 1, NL_ >= 1, ISHDR(0)]


def _searched_with(ex, st, a, k, n_):
    got = st.heap[a[0].oid].fields["__searched"]
    if not isinstance(got, Tup):
        return z3.BoolVal(False)
    rng, kwargs = got
    return z3.And(ex.struct_eq(rng, a[1]), ex.struct_eq(kwargs, a[2]) if not (kwargs is NONE or a[2] is NONE) else z3.BoolVal(kwargs is a[2]))


R_GHOST = {"LOADED": lambda i, j: z3.Select(z3.Select(ARRAYF, i), j), "META": FuncV(lambda ex, st, a, k, n_: st.env["__meta"].items[a[0].s], "META"),
           "searched_with": FuncV(_searched_with, "searched_with"), "M": MW, "NCOL": NCOL,
           "meta_is_loaded": FuncV(lambda ex, st, a, k, n_: z3.BoolVal(st.heap[a[0].oid].fields["meta"] is st.env["__meta"]), "meta_is_loaded"),
           "has_key": FuncV(lambda ex, st, a, k, n_: z3.BoolVal(a[1].s in st.heap[a[0].oid].fields["meta"].items), "has_key")}
for _kw in ("None", "dict"):
    _RENV = dict(open=FuncV(_m_open_r, "open"), json=ModV("json", {"loads": _m_loads("traditional", _kw)}),
                 np=ModV("np", dict(npm.NP.attrs, loadtxt=FuncV(_m_loadtxt, "np.loadtxt"))), HvsrTraditional=_m_ctor("HvsrTraditional"),
                 HvsrAzimuthal=_m_ctor("HvsrAzimuthal"), HvsrDiffuseField=_m_ctor("HvsrDiffuseField"))
    READ_T = Contract(
        qual="hvsrpy.object_io.read_hvsr_object_from_file", params=["fname"], ghost=R_GHOST, make_inputs=_rd_inputs, sym_lists={"header_lines": "str"},
        requires=["NCOL >= 3"],
        ensures=["len(result.frequency) == M and forall(i, 0, M, result.frequency[i] == LOADED(i, 0))",
                 "result.amplitude.shape[0] == NCOL - 3 and result.amplitude.shape[1] == M",
                 "forall(k, 0, NCOL - 3, forall(i, 0, M, result.amplitude[k, i] == LOADED(i, 1 + k)))",
                 "searched_with(result, META('search_range_in_hz'), META('find_peaks_kwargs'))",
                 "len(result.valid_window_boolean_mask) == NCOL - 3 and forall(k, 0, NCOL - 3, result.valid_window_boolean_mask[k] == STORED_VW(k))",
                 "len(result.valid_peak_boolean_mask) == NCOL - 3 and forall(k, 0, NCOL - 3, result.valid_peak_boolean_mask[k] == STORED_VP(k))",
                 "meta_is_loaded(result) and not has_key(result, 'valid_window_boolean_mask') and not has_key(result, 'valid_peak_boolean_mask')"],
        loops={0: ["len(header_lines) == _k0", "forall(t, 0, _k0, IS_HEADER(t))"]}, modifies=[],
        notes="traditional file: column 0 the frequencies, columns 1..-3 the curves in order (the last two columns - derived - are not read back); the peak search runs "
              "with the stored range and filters and only then the stored masks are installed, unchanged; the header's remaining entries become the object's meta")
    READ_T.ghost.update(STORED_VW=lambda k: z3.Select(MVW, k), STORED_VP=lambda k: z3.Select(MVP, k), IS_HEADER=lambda t: ISHDR(t))
    READ_T.ghost_state = ("__meta",)
    TASKS.append(FunctionTask(READ_T, module_env=_RENV, registry={"File.readlines": FuncV(_m_readlines, "readlines"), "HvsrTraditional.update_peaks_bounded": FuncV(_m_search, "update_peaks_bounded")},
                              label=f"hvsrpy.object_io.read_hvsr_object_from_file[traditional,kwargs={_kw}]",
                              clauses=["the object read back has the stored curves, range, filters and masks"]))
    _RENVD = dict(_RENV, json=ModV("json", {"loads": _m_loads("diffuse_field", _kw)}))
    READ_D = Contract(
        qual="hvsrpy.object_io.read_hvsr_object_from_file", params=["fname"], ghost=dict(R_GHOST, IS_HEADER=lambda t: ISHDR(t)), make_inputs=_rd_inputs, sym_lists={"header_lines": "str"},
        requires=["NCOL == 2"],
        ensures=["len(result.frequency) == M and forall(i, 0, M, result.frequency[i] == LOADED(i, 0))",
                 "len(result.amplitude) == M and forall(i, 0, M, result.amplitude[i] == LOADED(i, 1))",
                 "searched_with(result, META('search_range_in_hz'), META('find_peaks_kwargs'))", "meta_is_loaded(result)"],
        loops={0: ["len(header_lines) == _k0", "forall(t, 0, _k0, IS_HEADER(t))"]}, modifies=[],
        notes="diffuse-field file: frequencies and the curve; the peak search runs with the stored range and filters")
    READ_D.ghost_state = ("__meta",)
    TASKS.append(FunctionTask(READ_D, module_env=_RENVD, registry={"File.readlines": FuncV(_m_readlines, "readlines"), "HvsrDiffuseField.update_peaks_bounded": FuncV(_m_search, "update_peaks_bounded")},
                              label=f"hvsrpy.object_io.read_hvsr_object_from_file[diffuse_field,kwargs={_kw}]", clauses=["the diffuse-field object read back has the stored curve"]))

# ---------------------------------------------------------------------------------------------------------------------
# the azimuthal branch of the reader (as repaired for F-19): one group of columns per stored mask list, in order; azimuth a is the number in the title of the
# first column of group a; object a holds exactly the columns of its group; the peak search with the stored range runs on the whole object before every
# azimuth's stored masks are installed, unchanged.  NCUR(a) = length of the stored mask list of azimuth a; OFFN(a) = number of curves before azimuth a.
HZR = z3.Int("n_stored_azimuths")
NCURS = z3.Function("stored_mask_length", I, I)
OFFR = z3.Function("OFFR", I, I)
STOREDW = z3.Function("stored_valid_window_mask", I, AB)
STOREDP = z3.Function("stored_valid_peak_mask", I, AB)
AZTXT = z3.Function("azimuth_text_of_column_title", I, I)
PFLOAT = z3.Function("float_of_text", I, R)
OBJAT = z3.Function("object_built_from_columns_starting_at", I, I)
_a2, _s2, _t2 = z3.Ints("a!offr s!offr t!offr")
AX_OFFR = [OFFR(0) == 0, z3.ForAll([_a2], z3.Implies(_a2 >= 0, OFFR(_a2 + 1) == OFFR(_a2) + NCURS(_a2)), patterns=[OFFR(_a2 + 1)]),
           z3.ForAll([_s2, _t2], z3.Implies(z3.And(0 <= _s2, _s2 < _t2, _t2 <= HZR), OFFR(_s2) + NCURS(_s2) <= OFFR(_t2)), patterns=[z3.MultiPattern(OFFR(_s2), OFFR(_t2))]),
           z3.ForAll([_s2], z3.Implies(z3.And(0 <= _s2, _s2 <= HZR), OFFR(_s2) >= 0), patterns=[OFFR(_s2)]),
           z3.ForAll([_s2, _t2], z3.Implies(z3.And(0 <= _s2, _s2 < _t2, _t2 < HZR), OBJAT(1 + OFFR(_s2)) != OBJAT(1 + OFFR(_t2))), patterns=[z3.MultiPattern(OBJAT(1 + OFFR(_s2)), OBJAT(1 + OFFR(_t2)))])]
from pyvc.core import SeqV
from pyvc import objects as _o12
_HT = "HvsrTraditional"
AMP3 = None


def _amp3():
    key = (_HT, "amplitude", "data3")
    if key not in _o12._FUNCS:
        _o12._FUNCS[key] = z3.Function(f"fld_{_HT}_amplitude_at", I, I, I, R)
    return _o12._FUNCS[key]


def _m_loads_az(kw):
    def f(ex, st, args, kw_, node):
        items = _meta_value("azimuthal", kw)
        mk = lambda F: SeqV(HZR, lambda ex_, st_, a: ex_.alloc_arr(st_, (NCURS(a),), F(a), "bool", "fresh", tag="stored_mask"), owner="fresh", name="stored_masks")
        items["valid_window_boolean_masks"], items["valid_peak_boolean_masks"] = mk(STOREDW), mk(STOREDP)
        d = DictV(items)
        st.env["__meta"] = d
        return d
    return FuncV(f, "json.loads")


def _m_split_titles(ex, st, args, kw, node):
    """the last header line split at the commas: one title per column of the array (A-TEXT-ROUNDTRIP: what np.savetxt wrote)"""
    return _o12.new_symlist(ex, st, _o12.STR_LIST, length=NCOL, name="titles")


class _TitleLine(StrV):
    pass


def _m_azimuth_search(ex, st, args, kw, node):
    s = args[0]
    if not isinstance(s, _o12.IdxStr):
        raise Undecided("azimuth_exec.search of something other than a column title")
    from contracts.C07 import OStr
    return ModV("match", {"groups": FuncV(lambda e2, s2, a2, k2, n2, _i=s.index: Tup((OStr(AZTXT(_i)),)), "groups")})


def _m_float_az(ex, st, args, kw, node):
    from contracts.C07 import OStr
    if isinstance(args[0], OStr):
        return PFLOAT(args[0].sym_id)
    return npm.BUILTINS["float"].fn(ex, st, args, kw, node)


def _m_ht_ctor(ex, st, args, kw, node):
    """HvsrTraditional(frequency, curves as rows): a new object whose rows are the columns handed over (transposed view of a column block of the array)"""
    fr, a = ex.arr(st, args[0]), ex.arr(st, args[1])
    probe = z3.simplify(ex.sel2(a, z3.IntVal(0), z3.IntVal(0)))        # LOADED[0][start]: the first column of the block identifies the object
    start = st.env["start_idx"]
    oid = OBJAT(lit(start))
    r, c = z3.Ints("r!ht c!ht")
    st.pc += [_o12.fld(_HT, "amplitude_rows", I)(oid) == a.shape[0], _o12.fld(_HT, "amplitude_cols", I)(oid) == a.shape[1],
              z3.ForAll([r, c], z3.Implies(z3.And(r >= 0, r < a.shape[0], c >= 0, c < a.shape[1]), _amp3()(oid, r, c) == ex.sel2(a, r, c)), patterns=[_amp3()(oid, r, c)])]
    return SObj(_HT, oid, owner="fresh")


def _m_haz_ctor(ex, st, args, kw, node):
    return ex.alloc_obj(st, "HvsrAzimuthal", {"hvsrs": kw["hvsrs"], "azimuths": kw["azimuths"], "meta": kw.get("meta", NONE), "__searched": NONE}, "fresh")


def _m_search_az(ex, st, args, kw, node):
    o = st.heap[args[0].oid]
    o.fields["__searched"] = Tup((kw.get("search_range_in_hz", Tup((NONE, NONE))), kw.get("find_peaks_kwargs", NONE)))
    st.env["__VWM"], st.env["__VPM"] = ex.fresh("window_masks_after_search", z3.ArraySort(I, AB)), ex.fresh("peak_masks_after_search", z3.ArraySort(I, AB))
    return NONE


def _sobj_setattr(ex, st, o, attr, val, node):
    key = {"valid_window_boolean_mask": "__VWM", "valid_peak_boolean_mask": "__VPM"}.get(attr)
    if key is None or not isinstance(val, ARef):
        raise Undecided(f"write to field {attr} of a per-azimuth object")
    st.env[key] = z3.Store(st.env[key], o.id, ex.arr(st, val).data)


def _raz_inputs(ex, st):
    st.env["fname"] = StrV("<fname>")
    st.env["M"], st.env["NCOL"], st.env["HZR"] = MW, NCOL, HZR
    st.env["__VWM"], st.env["__VPM"] = z3.Const("window_masks_initial", z3.ArraySort(I, AB)), z3.Const("peak_masks_initial", z3.ArraySort(I, AB))
    k = z3.Int("k!nc")
    return [MW >= 1, NL_ >= 1, ISHDR(0), HZR >= 1, NCOL == OFFR(HZR) + 3, z3.ForAll([k], z3.Implies(z3.And(k >= 0, k < HZR), NCURS(k) >= 1), patterns=[NCURS(k)])]


def _obj_of(a):
    return OBJAT(1 + OFFR(a))


RAZ_GHOST = dict(R_GHOST, OFFR=OFFR, NCURS=NCURS, HZR=HZR, IS_HEADER=lambda t: ISHDR(t),
                 AZ_OF=lambda a: PFLOAT(AZTXT(1 + OFFR(a))), OBJ=lambda a: _obj_of(a),
                 AMPOBJ=lambda a, k, i: _amp3()(_obj_of(a), k, i), ROWS=lambda a: _o12.fld(_HT, "amplitude_rows", I)(_obj_of(a)),
                 COLS=lambda a: _o12.fld(_HT, "amplitude_cols", I)(_obj_of(a)),
                 VWM=FuncV(lambda ex, st, a, k, n_: z3.Select(st.env["__VWM"], lit(a[0])), "VWM"), VPM=FuncV(lambda ex, st, a, k, n_: z3.Select(st.env["__VPM"], lit(a[0])), "VPM"),
                 SW=lambda a: STOREDW(a), SP=lambda a: STOREDP(a), same_obj=FuncV(lambda ex, st, a, k, n_: a[0].id == lit(a[1]), "same_obj"))
_GRP = "forall(a, 0, {n}, same_obj(hvsrs[a], OBJ(a)) and azimuths[a] == AZ_OF(a))"
for _kw in ("None", "dict"):
    _ENVAZ = dict(open=FuncV(_m_open_r, "open"), json=ModV("json", {"loads": _m_loads_az(_kw)}), np=ModV("np", dict(npm.NP.attrs, loadtxt=FuncV(_m_loadtxt, "np.loadtxt"))),
                  HvsrTraditional=FuncV(_m_ht_ctor, "HvsrTraditional"), HvsrAzimuthal=FuncV(_m_haz_ctor, "HvsrAzimuthal"), HvsrDiffuseField=_m_ctor("HvsrDiffuseField"),
                  azimuth_exec=ModV("azimuth_exec", {"search": FuncV(_m_azimuth_search, "azimuth_exec.search")}), float=FuncV(_m_float_az, "float"))
    READ_A = Contract(
        qual="hvsrpy.object_io.read_hvsr_object_from_file", params=["fname"], ghost=RAZ_GHOST, axioms=AX_OFFR, make_inputs=_raz_inputs,
        sym_lists={"header_lines": "str", "hvsrs": "HvsrTraditional", "azimuths": "real"},
        ensures=["len(result.hvsrs) == HZR and len(result.azimuths) == HZR",
                 "forall(a, 0, HZR, same_obj(result.hvsrs[a], OBJ(a)) and result.azimuths[a] == AZ_OF(a))",
                 "forall(a, 0, HZR, ROWS(a) == NCURS(a) and COLS(a) == M)",
                 "forall(a, 0, HZR, forall(k, 0, NCURS(a), forall(i, 0, M, AMPOBJ(a, k, i) == LOADED(i, 1 + OFFR(a) + k))))",
                 "searched_with(result, META('search_range_in_hz'), META('find_peaks_kwargs'))",
                 "forall(a, 0, HZR, VWM(OBJ(a)) == SW(a) and VPM(OBJ(a)) == SP(a))", "meta_is_loaded(result)"],
        loops={0: ["len(header_lines) == _k0", "forall(t, 0, _k0, IS_HEADER(t))"],
               1: ["start_idx == 1 + OFFR(_k1)", "len(hvsrs) == _k1 and len(azimuths) == _k1", _GRP.format(n="_k1"),
                   "forall(a, 0, _k1, ROWS(a) == NCURS(a) and COLS(a) == M)",
                   "forall(a, 0, _k1, forall(k, 0, NCURS(a), forall(i, 0, M, AMPOBJ(a, k, i) == LOADED(i, 1 + OFFR(a) + k))))"],
               2: ["forall(a, 0, _k2, VWM(OBJ(a)) == SW(a) and VPM(OBJ(a)) == SP(a))"]},
        modifies=[], notes="azimuthal file: group a of the columns (NCURS(a) of them, after the groups before it) becomes the curves of azimuth a, whose value is the number in the "
                           "title of the group's first column; the search with the stored range runs once on the whole object, then every azimuth's stored masks are installed")
    READ_A.ghost_state = ("__meta", "__VWM", "__VPM")
    READ_A.sobj_setattr = _sobj_setattr
    READ_A.str_split_model = _m_split_titles
    TASKS.append(FunctionTask(READ_A, module_env=_ENVAZ,
                              registry={"File.readlines": FuncV(_m_readlines, "readlines"), "HvsrAzimuthal.update_peaks_bounded": FuncV(_m_search_az, "update_peaks_bounded")},
                              label=f"hvsrpy.object_io.read_hvsr_object_from_file[azimuthal,kwargs={_kw}]",
                              clauses=["the azimuthal object read back has the stored curves per azimuth, azimuths, range, filters and masks"]))

META = dict(
    level="other",
    explanation="structural obligations: the writer never rebinds its `hvsr` parameter and takes frequency / mean / std columns from it, deep-copies meta; the "
                "reader runs the peak search before installing the stored masks by plain assignment; bounded: real write/read round trips of "
                "traditional (after random histories incl. accepted windows without a peak), azimuthal (1-4 azimuths, unequal counts, non-integer "
                "azimuths, range and mask states) and diffuse-field objects compared bit for bit incl. every statistic, file columns checked",
    trusted_base=["np.savetxt/np.loadtxt '%.18e' round trip, json, the azimuth header regex (all exercised, not proved)", "the AST pattern matcher"],
    assumptions=["A-TEXT-ROUNDTRIP", "A-JSON", "A-RE"],
)

# the constructors of the result objects (contracts/ctor_hvsr.py): the reader rebuilds the objects through these constructors
import contracts.ctor_hvsr as _CTOR
TASKS += [t for t in _CTOR.TASKS if True]

# is_similar / __eq__ of the curve classes (contracts/similar.py): the constructors the reader goes through refuse curves that are not similar
import contracts.similar as _SIM
TASKS += [t for t in _SIM.TASKS if ".timeseries." not in t.label and ".seismic_recording_3c." not in t.label and ".settings." not in t.label]
