"""diffuse_field_hvsr_processing and rpsd under contract (processing.py): which recordings, which components, which FFT length, which smoothing
operator arguments and which formula produce the result.  The numerical stages are opaque (their contracts: _rpds_single_component C17, smoothing
operators C02, prepare_fft_settings C01, prepare_records_with_inconsistent_dt / check_nyquist_frequency C03); the callees are used through those
contracts.  PSD_OF(ids, n_windows, n_fft, width) is the array _rpds_single_component returns for the list of time series with those ids.
"""
import z3

from pyvc.core import I, R, B, A2, ARef, SeqV, FuncV, ModV, DictV, StrV, Tup, NONE, Undecided, lit, real as real_
from pyvc.contract import Contract, FunctionTask, sym_obj
from pyvc import npmodel as npm, objects
from pyvc.objects import new_symlist, SObj, SDRef, SymDictData
import contracts.C03 as C03
from contracts.C03 import LL, RR, NC, FCS, NFFT, WIDTH, BW, DH, DV, DK, DN, FRQ, SMF, DT2, CNT2, AX_DRV, _m_prepare_fft, _m_prepare_records, _m_rfftfreq, _m_smooth, CHECK_NYQUIST, _OPERATORS, _comp

AR = z3.ArraySort(I, R)
IDS = z3.ArraySort(I, I)
PSD_OF = z3.Function("PSD_OF", IDS, I, I, R, AR)
TSLEN = objects.fld("TimeSeries", "amplitude_len", I)
TSDT = objects.fld("TimeSeries", "dt_in_seconds", R)
NS0 = z3.Int("n_samples_per_window")
_k0 = z3.Int("k!ids")


def _ids_of(comp):
    return z3.Lambda([_k0], _comp(z3.Select(RR, _k0), comp))


def _m_rpds(ex, st, args, kw, node):
    """_rpds_single_component(list of time series, settings) through its contract (C17): equal steps and lengths are its preconditions"""
    ts, settings = args
    if not isinstance(ts, SeqV):
        raise Undecided("_rpds_single_component is handed something other than a comprehension over the recordings")
    o = ts.getter(ex, st.fork(), _k0)
    if not isinstance(o, SObj) or o.cls != "TimeSeries":
        raise Undecided("the list handed to _rpds_single_component does not consist of time series")
    ids = z3.Lambda([_k0], o.id)
    k, j = z3.Ints("k!pre j!pre")
    idk, idj = z3.substitute(o.id, (_k0, k)), z3.substitute(o.id, (_k0, j))
    rng = z3.And(k >= 0, k < ts.length, j >= 0, j < ts.length)
    ex.add_obl(f"call-pre[_rpds_single_component:equal-steps@{node.lineno}]", "call-pre", st, z3.ForAll([k, j], z3.Implies(rng, TSDT(idk) == TSDT(idj))), node.lineno,
               "all windows handed to the PSD have one time step")
    ex.add_obl(f"call-pre[_rpds_single_component:non-empty-windows@{node.lineno}]", "call-pre", st, z3.ForAll([k, j], z3.Implies(rng, TSLEN(idk) >= 1)), node.lineno,
               "every window handed to the PSD has at least one sample")
    ex.add_obl(f"call-pre[_rpds_single_component:non-empty@{node.lineno}]", "call-pre", st, ts.length >= 1, node.lineno, "at least one window")
    fs = st.heap[settings.oid].fields["fft_settings"]
    n = lit(fs.items["n"])
    width = lit(st.heap[settings.oid].fields["window_type_and_width"][1])
    return ex.alloc_arr(st, (n / 2 + 1,), PSD_OF(ids, ts.length, n, real_(width)), "real", "fresh", tag="psd")


def _m_df_ctor(cls):
    def f(ex, st, args, kw, node):
        fr, a = ex.arr(st, args[0]), ex.arr(st, args[1])
        return ex.alloc_obj(st, cls, {"frequency": ex.alloc_arr(st, fr.shape, fr.data, "real", "fresh", tag="frequency"),
                                      "amplitude": ex.alloc_arr(st, a.shape, a.data, "real", "fresh", tag="amplitude"), "meta": kw.get("meta", NONE)}, "fresh")
    return FuncV(f, cls)


def _inputs(operator, smoothing=True):
    def mk(ex, st):
        st.env["records"] = new_symlist(ex, st, "SeismicRecording3C", length=z3.Int("L_in"), arr=z3.Const("input_record_ids", IDS), owner="param:records", name="records")
        fcs = ex.alloc_arr(st, (NC,), FCS, "real", "param:settings.smoothing.center_frequencies_in_hz", tag="fcs")
        st.env["settings"] = sym_obj(ex, st, "Settings", {
            "smoothing": DictV({"center_frequencies_in_hz": fcs, "operator": StrV(operator), "bandwidth": BW}) if smoothing else NONE,
            "fft_settings": NONE, "window_type_and_width": Tup((StrV("tukey"), WIDTH)), "attr_dict": DictV({}),
            "handle_dissimilar_time_steps_by": StrV("keeping_majority_time_step")}, owner="param:settings")
        st.env["LL"], st.env["NC"], st.env["NFFT"] = LL, NC, NFFT
        k = z3.Int("k!dt")
        rid = z3.Select(RR, k)
        same = [TSLEN(_comp(rid, c)) >= 1 for c in ("ns", "ew", "vt")] + [TSDT(_comp(rid, c)) == TSDT(_comp(rid, "ns")) for c in ("ew", "vt")]
        return [NC >= 1, NFFT >= 2, NS0 >= 1, z3.ForAll([k], DT2(k) > 0, patterns=[DT2(k)]),
                # preconditions: no component is empty, and the three components of a recording share its time step (SeismicRecording3C's invariant)
                z3.ForAll([k], z3.And(*same), patterns=[z3.Select(RR, k)])]
    return mk


_NP = ModV("np", dict(npm.NP.attrs, fft=ModV("np.fft", {"rfftfreq": FuncV(_m_rfftfreq, "np.fft.rfftfreq")})))
ENV = {"prepare_fft_settings": FuncV(_m_prepare_fft, "prepare_fft_settings"),
       "prepare_records_with_inconsistent_dt": FuncV(_m_prepare_records, "prepare_records_with_inconsistent_dt"),
       "check_nyquist_frequency": CHECK_NYQUIST, "_rpds_single_component": FuncV(_m_rpds, "_rpds_single_component"), "np": _NP,
       "SMOOTHING_OPERATORS": DictV({k: FuncV(_m_smooth, k) for k in _OPERATORS}),
       "HvsrDiffuseField": _m_df_ctor("HvsrDiffuseField"), "Psd": _m_df_ctor("Psd")}


def _psd(comp):
    return PSD_OF(_ids_of(comp), LL, NFFT, WIDTH)


_i = z3.Int("i!m")
_HSUM = z3.Lambda([_i], z3.Select(_psd("ns"), _i) + z3.Select(_psd("ew"), _i))
_DT0 = TSDT(_comp(z3.Select(RR, 0), "vt"))
GHOST = {"PSD": FuncV(lambda ex, st, a, k, n_: z3.Select(_psd(a[0].s), lit(a[1])), "PSD"),
         "SM_H": lambda c: SMF(FRQ(NFFT, _DT0), _HSUM, c), "SM_V": lambda c: SMF(FRQ(NFFT, _DT0), _psd("vt"), c),
         "SM": FuncV(lambda ex, st, a, k, n_: SMF(FRQ(NFFT, _DT0), _psd(a[0].s), lit(a[1])), "SM"),
         "FRQ0": lambda c: z3.Select(FRQ(NFFT, _DT0), c), "DT2": lambda i: DT2(i), "DN": DN, "sqrt": npm.SQRT}
_FCS = "settings.smoothing['center_frequencies_in_hz']"

DIFFUSE = Contract(
    qual="hvsrpy.processing.diffuse_field_hvsr_processing", params=["records", "settings"], ghost=GHOST, axioms=AX_DRV, make_inputs=_inputs("konno_and_ohmachi"),
    raises_only_if={"ValueError": f"DN > 1 or exists(c, 0, NC, exists(i, 0, LL, {_FCS}[c] > 1 / (2 * DT2(i))))"},
    ensures=["len(result.frequency) == NC", f"forall(c, 0, NC, result.frequency[c] == {_FCS}[c])", "len(result.amplitude) == NC",
             "forall(c, 0, NC, result.amplitude[c] == sqrt(SM_H(c) / SM_V(c)))"],
    modifies=["param:settings"],
    notes="sqrt( S(P_ns + P_ew) / S(P_vt) ) at the requested centre frequencies: the three densities of the *same* kept recordings with the published FFT length "
          "and the caller's taper, one call of the selected smoothing operator on the two rows with the FFT frequencies of the kept recordings' time step")
TASKS = [FunctionTask(DIFFUSE, module_env=ENV, clauses=["diffuse-field HVSR = sqrt(smoothed (P_ns + P_ew) / smoothed P_vt) of the same windows"])]

# ---------------------------------------------------------------- rpsd: the three densities, optionally smoothed by one operator call on three rows
ENV_RPSD = dict(ENV)


def _m_prepare_fft_all(ex, st, args, kw, node):
    """rpsd does not drop recordings: the list handed on is the caller's (kept = all); prepare_fft_settings publishes the FFT length"""
    st.heap[args[1].oid].fields["fft_settings"] = DictV({"n": NFFT})
    return NONE


def _rpsd_inputs(operator, smoothing):
    def mk(ex, st):
        facts = _inputs(operator, smoothing)(ex, st)
        st.env["records"] = new_symlist(ex, st, "SeismicRecording3C", length=LL, arr=RR, owner="param:records", name="records")
        return facts + [LL >= 1, DT2(0) == DT2(0)] + [z3.ForAll([z3.Int("k!eq")], z3.Implies(z3.And(z3.Int("k!eq") >= 0, z3.Int("k!eq") < LL), DT2(z3.Int("k!eq")) == DT2(0)))]
    return mk


for _sm in (True, False):
    _fr = (lambda c: f"{_FCS}[{c}]") if _sm else (lambda c: f"FRQ0({c})")
    _val = (lambda comp, c: f"SM('{comp}', {c})") if _sm else (lambda comp, c: f"PSD('{comp}', {c})")
    _n = "NC" if _sm else "NFFT // 2 + 1"
    ens = []
    for comp in ("ns", "ew", "vt"):
        ens += [f"len(result['{comp}'].frequency) == {_n} and len(result['{comp}'].amplitude) == {_n}",
                f"forall(c, 0, {_n}, result['{comp}'].frequency[c] == {_fr('c')} and result['{comp}'].amplitude[c] == {_val(comp, 'c')})"]
    c_ = Contract(qual="hvsrpy.processing.rpsd", params=["records", "settings"], ghost=GHOST, axioms=AX_DRV[-1:], make_inputs=_rpsd_inputs("konno_and_ohmachi", _sm),
                  ensures=ens, modifies=["param:settings"],
                  notes="each component's density is that of the component's own windows (ns -> 'ns', ew -> 'ew', vt -> 'vt'), smoothed - when smoothing is asked for - by "
                        "one operator call and reported at the centre frequencies, otherwise reported at the FFT frequencies; equal time steps are a precondition")
    TASKS.append(FunctionTask(c_, module_env=ENV_RPSD, label=f"hvsrpy.processing.rpsd[smoothing={'yes' if _sm else 'None'}]",
                              clauses=["each component's PSD comes from that component's windows; optional smoothing"]))

ASSUMPTIONS = ["opaque stages in the PSD driver proofs: _rpds_single_component (contract: C17), the smoothing operator (row-wise, C02), np.fft.rfftfreq, prepare_fft_settings "
               "(publishes one FFT length, C01), prepare_records_with_inconsistent_dt (C03)",
               "preconditions of the PSD drivers: no empty component; components of a recording share its time step; "
               "rpsd additionally: all recordings share one time step (rpsd ignores handle_dissimilar_time_steps_by)"]
