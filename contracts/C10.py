"""C10 - preprocessing applies the documented steps in order; windows tile the record (timeseries.py, seismic_recording_3c.py,
preprocessing.py).

Under contract: TimeSeries.split (samples per window under the floating-point model of DESIGN 4.4, tiling, shared boundary
sample, error for a window longer than the record), the three TimeSeries properties it relies on.
"""
import z3

from pyvc.core import I, R, B, Tup
from pyvc.contract import Contract, FunctionTask, sym_arr1, sym_obj
from pyvc import objects
from pyvc.objects import SObj, fld, arr_len, arr_at

N = z3.Int("N")
dt = z3.Real("dt")
Lw = z3.Real("window_length_in_seconds")


# ---------------------------------------------------------------- TimeSeries(amplitude, dt) constructor as seen by callers
def ts_ctor_result(ex, st, env):
    oid = ex.fresh("ts", I)
    a = env["amplitude"]
    d = ex.arr(st, a)
    j = z3.Int("j!ctor")
    st.pc += [arr_len("TimeSeries", "amplitude", oid) == d.shape[0],
              z3.ForAll([j], z3.Implies(z3.And(j >= 0, j < d.shape[0]), arr_at("TimeSeries", "amplitude", oid, j) == z3.Select(d.data, j)),
                        patterns=[arr_at("TimeSeries", "amplitude", oid, j)]),
              fld("TimeSeries", "dt_in_seconds", R)(oid) == env["dt_in_seconds"]]
    return SObj("TimeSeries", oid, owner="fresh")


TS_CTOR = Contract(
    qual="hvsrpy.timeseries.TimeSeries.__init__", params=["amplitude", "dt_in_seconds"],
    requires=[], ensures=[], make_result=ts_ctor_result,
    notes="np.array(amplitude, dtype=double) copies: the new object owns fresh storage holding the same samples (A-NP-ALLOC); verified in C18")


def _self_ts(ex, st):
    amp = sym_arr1(ex, st, "self_amplitude", N, owner="param:self.amplitude")
    st.env["self"] = sym_obj(ex, st, "TimeSeries", {"amplitude": amp, "dt_in_seconds": dt}, owner="param:self")
    st.env["N"], st.env["dt"] = N, dt
    return [N >= 0, dt > 0]


def _split_inputs(ex, st):
    facts = _self_ts(ex, st)
    st.env["window_length_in_seconds"] = Lw
    return facts


Q = "(window_length_in_seconds / self.dt_in_seconds)"
SPLIT = Contract(
    qual="hvsrpy.timeseries.TimeSeries.split", params=["self", "window_length_in_seconds"],
    requires=["window_length_in_seconds > 0", "N >= 1",
              # stated bound on the input domain: at least one and at most 10**6 sample intervals per window
              f"{Q} >= 1", f"{Q} <= 1000000"],
    raises={"ValueError": "N < intervals_per_window"},
    ensures=[
        # k = number of whole sample intervals, tolerant to the rounding of dt and of the division
        "intervals_per_window >= 1",
        f"forall(mm, 1, 1000001, implies(abs({Q} - mm) <= mm / 1125899906842624, intervals_per_window == mm))",
        f"forall(mm, 0, 1000001, implies({Q} - mm >= 2/1000000 and (mm + 1) - {Q} >= 2/1000000, intervals_per_window == mm))",
        # tiling
        "len(result) == N // intervals_per_window",
        "forall(j, 0, len(result), len(result[j].amplitude) == ite(j*intervals_per_window + intervals_per_window + 1 <= N, intervals_per_window + 1, N - j*intervals_per_window))",
        "forall(j, 0, len(result), forall(t, 0, len(result[j].amplitude), result[j].amplitude[t] == old(self.amplitude)[j*intervals_per_window + t]))",
        "forall(j, 0, len(result), result[j].dt_in_seconds == self.dt_in_seconds)",
        # discarded tail shorter than one window; only a final window ending with the record may be one sample short
        "N - (len(result) * intervals_per_window) < intervals_per_window",
    ],
    loops={0: ["start_idx == _k0 * intervals_per_window", "len(windows) == _k0",
               "forall(j, 0, _k0, len(windows[j].amplitude) == ite(j*intervals_per_window + intervals_per_window + 1 <= N, intervals_per_window + 1, N - j*intervals_per_window))",
               "forall(j, 0, _k0, forall(t, 0, len(windows[j].amplitude), windows[j].amplitude[t] == self.amplitude[j*intervals_per_window + t]))",
               "forall(j, 0, _k0, windows[j].dt_in_seconds == self.dt_in_seconds)"]},
    sym_lists={"windows": "TimeSeries"}, float_model=True, modifies=[],
    make_inputs=_split_inputs,
    notes="float model: fl(a/b) and fl(a+b) carry a relative error <= 2**-53; 1125899906842624 = 2**50")

TASKS = [FunctionTask(SPLIT, module_env={"TimeSeries": TS_CTOR}, clauses=["k whole sample intervals; windows tile the record sharing boundary samples"])]

# ---------------------------------------------------------------------------------------------------------------------
# SeismicRecording3C.split: the three components are split with the same window length and recombined index by index.  TimeSeries.split is
# used through an abstraction of its contract above: the windows of a series are objects WIN(series, j), j < NWIN(series).
from pyvc.core import FuncV, DictV
from pyvc.objects import new_symlist

NWIN = z3.Function("NWIN", I, R, I)            # number of windows TimeSeries.split(L) returns for a series
WINID = z3.Function("WINID", I, R, I, I)       # the j-th of them
NEW3C = z3.Function("NEW3C", I, I, I, I)       # the recording built from three windows
DEG = z3.Real("degrees_from_north")
NS_ID, EW_ID, VT_ID = z3.Ints("ns_id ew_id vt_id")


def _m_ts_split(ex, st, args, kw, node):
    ts, L_ = args[0], args[1]
    j = z3.Int("j!w")
    ids = z3.Lambda([j], WINID(ts.id, L_, j))
    st.pc.append(NWIN(ts.id, L_) >= 0)
    return new_symlist(ex, st, "TimeSeries", length=NWIN(ts.id, L_), arr=ids, owner="fresh", name="windows")


def _m_3c_ctor(ex, st, args, kw, node):
    ns, ew, vt = args[0], args[1], args[2]
    oid = NEW3C(ns.id, ew.id, vt.id)
    st.pc += [fld("SeismicRecording3C", "ns", I)(oid) == ns.id, fld("SeismicRecording3C", "ew", I)(oid) == ew.id, fld("SeismicRecording3C", "vt", I)(oid) == vt.id,
              fld("SeismicRecording3C", "degrees_from_north", R)(oid) == kw["degrees_from_north"]]
    return SObj("SeismicRecording3C", oid, owner="fresh")


def _split3_inputs(ex, st):
    st.env["self"] = sym_obj(ex, st, "SeismicRecording3C", {"ns": SObj("TimeSeries", NS_ID, "param:self.ns"), "ew": SObj("TimeSeries", EW_ID, "param:self.ew"),
                                                            "vt": SObj("TimeSeries", VT_ID, "param:self.vt"), "degrees_from_north": DEG, "meta": DictV({})}, owner="param:self")
    st.env["window_length_in_seconds"] = Lw
    return []


def _zmin3(a, b, c):
    m = z3.If(a <= b, a, b)
    return z3.If(m <= c, m, c)


SPLIT3 = Contract(
    qual="hvsrpy.seismic_recording_3c.SeismicRecording3C.split", params=["self", "window_length_in_seconds"],
    ghost={"NW": lambda: _zmin3(NWIN(NS_ID, Lw), NWIN(EW_ID, Lw), NWIN(VT_ID, Lw)), "WIN": lambda c, j: WINID(c, Lw, j),
           "NS_ID": NS_ID, "EW_ID": EW_ID, "VT_ID": VT_ID, "same_obj": FuncV(lambda ex, st, a, k, n_: a[0].id == a[1], "same_obj")},
    make_inputs=_split3_inputs, sym_lists={"split_recordings": "SeismicRecording3C"}, modifies=["param:self"],
    ensures=["len(result) == NW()",
             "forall(j, 0, len(result), same_obj(result[j].ns, WIN(NS_ID, j)) and same_obj(result[j].ew, WIN(EW_ID, j)) and same_obj(result[j].vt, WIN(VT_ID, j)))",
             "forall(j, 0, len(result), result[j].degrees_from_north == self.degrees_from_north)"],
    loops={0: ["len(split_recordings) == _k0",
               "forall(j, 0, _k0, same_obj(split_recordings[j].ns, WIN(NS_ID, j)) and same_obj(split_recordings[j].ew, WIN(EW_ID, j)) and same_obj(split_recordings[j].vt, WIN(VT_ID, j)))",
               "forall(j, 0, _k0, split_recordings[j].degrees_from_north == self.degrees_from_north)"]},
    notes="window j of the recording = (window j of ns, window j of ew, window j of vt) of the same split, orientation carried over")
TASKS.append(FunctionTask(SPLIT3, registry={"TimeSeries.split": FuncV(_m_ts_split, "TimeSeries.split")}, module_env={"SeismicRecording3C": FuncV(_m_3c_ctor, "SeismicRecording3C")},
                          clauses=["three components split identically and recombined index by index"]))

# ---------------------------------------------------------------------------------------------------------------------
# hvsr_preprocess: order of the steps.  The content of a recording (its three series and orientation) is one abstract value per object id, kept
# in a ghost map C that the method models update: orient_sensor_to -> ORIENT, butterworth_filter -> BUTTER, split -> windows W3(rec, j) with
# content WINDOWC(content, L, j), detrend -> DETREND.  The result's windows then carry DETREND(WINDOWC(BUTTER(ORIENT(c0)))) - any other order
# of the calls gives a different term.
from pyvc.core import StrV, NONE

LREC = z3.Int("n_records")
RIDS = z3.Const("record_ids", z3.ArraySort(I, I))
C0 = z3.Const("content_on_entry", z3.ArraySort(I, I))
ORIENT = z3.Function("ORIENT", I, R, I)
BUTTER = z3.Function("BUTTER", I, R, R, I)
WINDOWC = z3.Function("WINDOWC", I, R, I, I)
DETREND = z3.Function("DETREND", I, I)             # the detrend mode is fixed per task
NW3 = z3.Function("NW3", I, R, I)                  # number of windows split(L) yields for a content
W3 = z3.Function("W3", I, I, I)                    # id of window j of recording r
WREC, WPOS = z3.Function("WREC", I, I), z3.Function("WPOS", I, I)
ISWIN = z3.Function("ISWIN", I, B)
NOFF = z3.Function("NOFF", I, I)                   # number of windows produced by the recordings before recording k
DEG0, FLO, FHI, LWIN = z3.Reals("orient_to f_low f_high window_length")


def PC(i, oriented):
    c = z3.Select(C0, z3.Select(RIDS, i))
    return BUTTER(ORIENT(c, DEG0) if oriented else c, FLO, FHI)


def _pre_axioms(oriented):
    r, j, i, k = z3.Ints("r!w j!w i!w k!w")
    nw = lambda q: NW3(PC(q, oriented), LWIN)
    return [
        z3.ForAll([r, j], z3.And(WREC(W3(r, j)) == r, WPOS(W3(r, j)) == j, ISWIN(W3(r, j))), patterns=[W3(r, j)]),
        z3.ForAll([i], z3.Not(ISWIN(z3.Select(RIDS, i))), patterns=[z3.Select(RIDS, i)]),
        z3.ForAll([r, LWIN_ := z3.Real("l!w")], NW3(r, LWIN_) >= 0, patterns=[NW3(r, LWIN_)]),
        NOFF(0) == 0,
        z3.ForAll([k], z3.Implies(k >= 0, NOFF(k + 1) == NOFF(k) + nw(k)), patterns=[NOFF(k + 1)]),
        # derived (base/step lemmas below): the windows of recording i end before those of every later recording start
        z3.ForAll([i, k], z3.Implies(z3.And(0 <= i, i < k), NOFF(i) + nw(i) <= NOFF(k)), patterns=[z3.MultiPattern(NOFF(i), NOFF(k))]),
        z3.ForAll([i, k], z3.Implies(z3.And(0 <= i, i <= k), NOFF(i) <= NOFF(k)), patterns=[z3.MultiPattern(NOFF(i), NOFF(k))]),
    ]


def _cmap(st):
    return st.env["__C"]


def _upd(st, oid, val):
    st.env["__C"] = z3.Store(st.env["__C"], oid, val)


def _m_orient(ex, st, args, kw, node):
    _upd(st, args[0].id, ORIENT(z3.Select(_cmap(st), args[0].id), real_(args[1])))
    return NONE


def _m_butter(ex, st, args, kw, node):
    lo, hi = args[1]
    _upd(st, args[0].id, BUTTER(z3.Select(_cmap(st), args[0].id), real_(lo), real_(hi)))
    return NONE


def _m_split3(ex, st, args, kw, node):
    rec, L_ = args[0], real_(args[1])
    c = z3.Select(_cmap(st), rec.id)
    j, w = z3.Int("j!sp"), z3.Int("w!sp")
    st.env["__C"] = z3.Lambda([w], z3.If(z3.And(WREC(w) == rec.id, WPOS(w) >= 0, WPOS(w) < NW3(c, L_), w == W3(rec.id, WPOS(w))),
                                         WINDOWC(c, L_, WPOS(w)), z3.Select(_cmap(st), w)))
    return new_symlist(ex, st, "SeismicRecording3C", length=NW3(c, L_), arr=z3.Lambda([j], W3(rec.id, j)), owner="fresh", name="windows")


def _m_detrend(ex, st, args, kw, node):
    _upd(st, args[0].id, DETREND(z3.Select(_cmap(st), args[0].id)))
    return NONE


from pyvc.core import real as real_


def _pre_inputs(oriented):
    def mk(ex, st):
        st.env["records"] = new_symlist(ex, st, "SeismicRecording3C", length=LREC, arr=RIDS, owner="param:records", name="records")
        st.env["settings"] = sym_obj(ex, st, "Settings", {
            "orient_to_degrees_from_north": DEG0 if oriented else NONE, "filter_corner_frequencies_in_hz": Tup((FLO, FHI)),
            "window_length_in_seconds": LWIN, "detrend": StrV("linear"), "ignore_dissimilar_time_step_warning": z3.Bool("ignore_warning")}, owner="param:settings")
        st.env["__C"] = C0
        st.env["LREC"] = LREC
        a, b = z3.Ints("a!in b!in")
        return [LREC >= 1, z3.ForAll([a, b], z3.Implies(z3.And(0 <= a, a < b, b < LREC), z3.Select(RIDS, a) != z3.Select(RIDS, b)))]     # distinct recording objects
    return mk


def _pre_contract(oriented):
    gh = {"C": FuncV(lambda ex, st, a, k, n_: z3.Select(st.env["__C"], a[0] if z3.is_expr(a[0]) else a[0].id), "C"), "C0": lambda r: z3.Select(C0, r),
          "RID": lambda i: z3.Select(RIDS, i), "W3": W3, "NOFF": NOFF, "NW": lambda i: NW3(PC(i, oriented), LWIN), "PC": lambda i: PC(i, oriented),
          "FINAL": lambda i, j: DETREND(WINDOWC(PC(i, oriented), LWIN, j)), "WINDOWC": lambda c, j: WINDOWC(c, LWIN, j), "DETREND": DETREND,
          "same_obj": FuncV(lambda ex, st, a, k, n_: a[0].id == a[1], "same_obj")}
    done = "forall(i, 0, {k}, forall(j, 0, NW(i), same_obj(preprocessed_records[NOFF(i) + j], W3(RID(i), j)) and C(W3(RID(i), j)) == FINAL(i, j)))"
    return Contract(
        qual="hvsrpy.preprocessing.hvsr_preprocess", params=["records", "settings"], ghost=gh, axioms=_pre_axioms(oriented),
        make_inputs=_pre_inputs(oriented), sym_lists={"preprocessed_records": "SeismicRecording3C"},
        ensures=["len(result) == NOFF(LREC)",
                 "forall(i, 0, LREC, forall(j, 0, NW(i), same_obj(result[NOFF(i) + j], W3(RID(i), j)) and C(W3(RID(i), j)) == FINAL(i, j)))"],
        loops={0: ["len(preprocessed_records) == NOFF(_k0)", done.format(k="_k0"), "forall(i, _k0, LREC, C(RID(i)) == C0(RID(i)))"],
               1: ["len(preprocessed_records) == NOFF(_k0)", done.format(k="_k0"), "forall(i, _k0 + 1, LREC, C(RID(i)) == C0(RID(i)))",
                   "forall(j, 0, _k1, C(W3(RID(_k0), j)) == DETREND(WINDOWC(PC(_k0), j)))",
                   "forall(j, _k1, NW(_k0), C(W3(RID(_k0), j)) == WINDOWC(PC(_k0), j))"]},
        modifies=["param:records"], notes="every recording: (orient,) filter the whole record, split, detrend each window; windows of all recordings in order")


for oriented in (True, False):
    c = _pre_contract(oriented)
    c.ghost_state = ("__C",)
    TASKS.append(FunctionTask(c, registry={"SeismicRecording3C.orient_sensor_to": FuncV(_m_orient, "orient_sensor_to"),
                                           "SeismicRecording3C.butterworth_filter": FuncV(_m_butter, "butterworth_filter"),
                                           "SeismicRecording3C.split": FuncV(_m_split3, "split"), "SeismicRecording3C.detrend": FuncV(_m_detrend, "detrend")},
                              module_env={"SeismicRecording3C": __import__("pyvc.core", fromlist=["ClsV"]).ClsV("SeismicRecording3C")},
                              label=f"hvsrpy.preprocessing.hvsr_preprocess[orient={'yes' if oriented else 'None'},split,detrend]",
                              clauses=["orient -> filter -> split -> detrend each window; windows in order"]))

# base / step of the derived NOFF clauses (A-INDUCTION)
from pyvc.contract import LemmaTask
_ax = _pre_axioms(True)
_i, _k = z3.Ints("i!n k!n")
_nw = lambda q: NW3(PC(q, True), LWIN)
TASKS += [
    LemmaTask("noff-monotone[step]", _ax[:5] + [_i >= 0, _i <= _k, NOFF(_i) <= NOFF(_k)], NOFF(_i) <= NOFF(_k + 1), "window counts are non-negative"),
    LemmaTask("noff-strict[base]", _ax[:5] + [_i >= 0], NOFF(_i) + _nw(_i) <= NOFF(_i + 1), "the windows of recording i end where those of i+1 start"),
    LemmaTask("noff-strict[step]", _ax[:5] + [_i >= 0, _i < _k, NOFF(_i) + _nw(_i) <= NOFF(_k)], NOFF(_i) + _nw(_i) <= NOFF(_k + 1), "and before every later start"),
]

# ---------------------------------------------------------------------------------------------------------------------
# the TimeSeries methods the wrappers and hvsr_preprocess use through models: detrend, window, butterworth_filter under contract (scipy's detrend / tukey /
# butter / sosfiltfilt opaque: A-DETREND, A-TUKEY, A-SOSFILTFILT), plus from_trace and is_similar.  What is proved: which scipy routine receives which
# arguments, what the samples become, whether the storage is the same (window multiplies in place) or new, and that nothing else of the object changes.
from pyvc.core import ModV, ARef, Undecided, ArrData, lit
from pyvc import npmodel as npm
ARs = z3.ArraySort(I, R)
NT, DTT = z3.Int("n_samples"), z3.Real("dt_in_seconds")
SAMP = z3.Const("samples", ARs)
SC_DETREND = z3.Function("scipy_detrend", ARs, I, I, ARs)               # (samples, n, type code)
SC_TUKEY = z3.Function("scipy_tukey", I, R, ARs)                       # (n, alpha)
SC_BUTTER = z3.Function("scipy_butter_sos", I, R, R, I, R, I)          # (order, wn_low, wn_high, btype code, fs) -> sos id
SC_SOSFILTFILT = z3.Function("scipy_sosfiltfilt", I, ARs, I, ARs)      # (sos id, samples, n)
_BT = {"lowpass": 1, "highpass": 2, "bandpass": 3}
_TY = {"linear": 0, "constant": 1}
NOWN = z3.Real("no_corner")       # placeholder for the unused entry of wn


def _ts_inputs(extra):
    def mk(ex, st):
        amp = ex.alloc_arr(st, (NT,), SAMP, "real", "param:self.amplitude", tag="amplitude")
        st.env["self"] = sym_obj(ex, st, "TimeSeries", {"amplitude": amp, "dt_in_seconds": DTT}, owner="param:self")
        st.env.update(extra)
        st.env["NT"] = NT
        return [NT >= 0, DTT > 0]
    return mk


def _m_sc_detrend(ex, st, args, kw, node):
    d = ex.arr(st, args[0])
    return ex.alloc_arr(st, d.shape, SC_DETREND(d.data, d.shape[0], z3.IntVal(_TY[kw.get("type", StrV("linear")).s])), "real", "fresh", tag="detrended")


def _m_sc_tukey(ex, st, args, kw, node):
    n = lit(args[0])
    return ex.alloc_arr(st, (n,), SC_TUKEY(n, real_(kw["alpha"])), "real", "fresh", tag="taper")


def _m_sc_butter(ex, st, args, kw, node):
    order, wn, btype = args
    if isinstance(wn, LRef):
        lo, hi = [real_(x) for x in st.heap[wn.sid].items]
    else:
        lo, hi = (real_(wn), NOWN) if btype.s == "highpass" else (NOWN, real_(wn))
    if not (isinstance(kw.get("output"), StrV) and kw["output"].s == "sos"):
        raise Undecided("butter output other than sos")
    return SC_BUTTER(lit(order), lo, hi, z3.IntVal(_BT[btype.s]), real_(kw["fs"]))


def _m_sc_sosfiltfilt(ex, st, args, kw, node):
    d = ex.arr(st, args[1])
    return ex.alloc_arr(st, d.shape, SC_SOSFILTFILT(lit(args[0]), d.data, d.shape[0]), "real", "fresh", tag="filtered")


from pyvc.core import LRef
_TS_ENV = {"detrend": FuncV(_m_sc_detrend, "scipy.signal.detrend"), "tukey": FuncV(_m_sc_tukey, "scipy.signal.windows.tukey"),
           "butter": FuncV(_m_sc_butter, "scipy.signal.butter"), "sosfiltfilt": FuncV(_m_sc_sosfiltfilt, "scipy.signal.sosfiltfilt"),
           "warnings": ModV("warnings", {"warn": FuncV(lambda ex, st, a, k, n_: NONE, "warnings.warn")})}
import contracts.C18 as _C18
_TS_REG = {"TimeSeries.n_samples": _C18.N_SAMPLES, "TimeSeries.fs": _C18.FS}
_TS_GH = {"DETREND": lambda i, t: z3.Select(SC_DETREND(SAMP, NT, t), i), "TUKEY": lambda i, w: z3.Select(SC_TUKEY(NT, w), i), "NT": NT,
          "FILT": lambda i, order, lo, hi, bt: z3.Select(SC_SOSFILTFILT(SC_BUTTER(order, lo, hi, bt, 1 / DTT), SAMP, NT), i), "NOWN": NOWN,
          "same_storage": FuncV(lambda ex, st, a, k, n_: z3.BoolVal(a[0].sid == ex.entry.heap[ex.entry.env["self"].oid].fields["amplitude"].sid), "same_storage")}
_Q = "hvsrpy.timeseries.TimeSeries."
for _ty in ("linear", "constant"):
    TASKS.append(FunctionTask(Contract(qual=_Q + "detrend", params=["self", "type"], ghost=_TS_GH, make_inputs=_ts_inputs({"type": StrV(_ty)}),
                                       ensures=["len(self.amplitude) == NT", f"forall(i, 0, NT, self.amplitude[i] == DETREND(i, {_TY[_ty]}))", "not same_storage(self.amplitude)",
                                                "self.dt_in_seconds == old(self.dt_in_seconds)"], modifies=["param:self"],
                                       notes="the samples become scipy.signal.detrend(samples, type=type) in a new array; the time step is untouched"),
                              module_env=_TS_ENV, registry=_TS_REG, label=_Q + f"detrend[{_ty}]", clauses=["detrend replaces the samples by scipy's detrended copy"]))
WW = z3.Real("width")
TASKS.append(FunctionTask(Contract(qual=_Q + "window", params=["self", "type", "width"], ghost=_TS_GH, make_inputs=_ts_inputs({"type": StrV("tukey"), "width": WW}),
                                   ensures=["len(self.amplitude) == NT", "forall(i, 0, NT, self.amplitude[i] == old(self.amplitude)[i] * TUKEY(i, width))",
                                            "same_storage(self.amplitude)", "self.dt_in_seconds == old(self.dt_in_seconds)"],
                                   modifies=["param:self", "param:self.amplitude"],
                                   notes="every sample is multiplied by the Tukey taper of the series' own length and the given width, IN PLACE: the storage is the "
                                         "caller-visible one (why process() tapers copies)"),
                          module_env=_TS_ENV, registry=_TS_REG, label=_Q + "window[tukey]", clauses=["window multiplies by the taper in place"]))
TASKS.append(FunctionTask(Contract(qual=_Q + "window", params=["self", "type", "width"], make_inputs=_ts_inputs({"type": StrV("hann"), "width": WW}),
                                   raises={"NotImplementedError": "True"}, ensures=[], modifies=[]),
                          module_env=_TS_ENV, registry=_TS_REG, label=_Q + "window[other]", clauses=["unknown window types are refused"]))
TFLO, TFHI, ORD = z3.Real("fc_low"), z3.Real("fc_high"), z3.Int("order")
for _name, _lo, _hi, _spec in (("lowpass", NONE, TFHI, f"FILT(i, order, NOWN, fc_high, {_BT['lowpass']})"), ("highpass", TFLO, NONE, f"FILT(i, order, fc_low, NOWN, {_BT['highpass']})"),
                               ("bandpass", TFLO, TFHI, f"FILT(i, order, fc_low, fc_high, {_BT['bandpass']})"), ("none", NONE, NONE, None)):
    if _spec is None:
        ens = ["same_storage(self.amplitude)", "forall(i, 0, NT, self.amplitude[i] == old(self.amplitude)[i])", "result is None"]
        mod = []
    else:
        ens = ["len(self.amplitude) == NT", f"forall(i, 0, NT, self.amplitude[i] == {_spec})", "not same_storage(self.amplitude)", "self.dt_in_seconds == old(self.dt_in_seconds)"]
        mod = ["param:self"]
    TASKS.append(FunctionTask(Contract(qual=_Q + "butterworth_filter", params=["self", "fcs_in_hz", "order"], ghost=dict(_TS_GH, fc_low=TFLO, fc_high=TFHI),
                                       make_inputs=_ts_inputs({"fcs_in_hz": Tup((_lo, _hi)), "order": ORD}), ensures=ens, modifies=mod,
                                       notes="(None, fh) low-pass at fh, (fl, None) high-pass at fl, (fl, fh) band-pass, (None, None) nothing; zero-phase filtering "
                                             "(sosfiltfilt) of the whole series with the Butterworth design for the series' own sampling rate"),
                              module_env=_TS_ENV, registry=_TS_REG, label=_Q + f"butterworth_filter[{_name}]", clauses=["zero-phase Butterworth filtering with the corners given"]))

# preprocess(): the routine registered for the settings' preprocessing method, called once with the caller's two arguments
import contracts.dispatch as _DISPATCH
TASKS += _DISPATCH.PREPROCESS_TASKS

META = dict(
    level="other",
    explanation="proved: TimeSeries.split (interval count under the float model, tiling, shared boundary sample, error case, frame); "
                "SeismicRecording3C.split (window j = windows j of the three components of the same split); hvsr_preprocess for every number of "
                "recordings and windows: each result window carries DETREND(WINDOW_j(BUTTER(ORIENT(content)))) of its recording - the order of the "
                "steps - and the windows of all recordings follow in order (ghost content map updated by the method models; steps themselves opaque); "
                "bounded: the same order against scipy numerically, component-wise split, psd_preprocess",
    trusted_base=["A-REAL except / and + in TimeSeries.split which use the relative-error float model", "A-PY", "A-NP-ALLOC", "PyVC engine + z3/cvc5"],
    assumptions=["A-REAL", "A-FLOAT-MODEL(split)", "A-PY", "A-NP-ALLOC",
                 "hvsr_preprocess proof: the recording methods are state transformers of one abstract content per object (orient_sensor_to, butterworth_filter, "
                 "split, detrend: their own effect is C04 / bounded C10), recordings in the list are distinct objects, split's error path is split's contract",
                 "configurations proved: orientation set / None with window length and detrend mode set (window_length None and detrend None/'none' are the "
                 "bounded clauses only)"],
)


# ---------------------------------------------------------------------------------------------------------------------
# the three-component wrappers: trim / detrend / window / butterworth_filter apply the TimeSeries method with the caller's arguments to ns, ew
# and vt, once each, and note the step in meta.  Component state = one abstract content per object in a ghost map (the TimeSeries methods
# themselves: C18 for trim, bounded C10 for the scipy-based ones).
WR_C0 = z3.Const("component_content_on_entry", z3.ArraySort(I, I))
TRIMF = z3.Function("TRIMF", I, R, R, I)
DETRF = z3.Function("DETRF", I, I, I)
WINF = z3.Function("WINF", I, I, R, I)
BUTF = z3.Function("BUTF", I, R, R, I, I)
T0, T1, WWID, BLO, BHI = z3.Reals("start_time end_time width f_low f_high")
BORD = z3.Int("order")
_CODE = {"linear": 1, "constant": 2, "tukey": 3}


def _upd_wr(st, oid, val):
    st.env["__WC"] = z3.Store(st.env["__WC"], oid, val)


def _cur(st, oid):
    return z3.Select(st.env["__WC"], oid)


def _m_ts_trim(ex, st, a, k, n_):
    _upd_wr(st, a[0].id, TRIMF(_cur(st, a[0].id), real_(k["start_time"]), real_(k["end_time"])))
    return NONE


def _m_ts_detrend(ex, st, a, k, n_):
    _upd_wr(st, a[0].id, DETRF(_cur(st, a[0].id), z3.IntVal(_CODE[k["type"].s])))
    return NONE


def _m_ts_window(ex, st, a, k, n_):
    _upd_wr(st, a[0].id, WINF(_cur(st, a[0].id), z3.IntVal(_CODE[k["type"].s]), real_(k["width"])))
    return NONE


def _m_ts_butter(ex, st, a, k, n_):
    lo, hi = k["fcs_in_hz"]
    _upd_wr(st, a[0].id, BUTF(_cur(st, a[0].id), real_(lo), real_(hi), k["order"]))
    return NONE


def _wr_inputs(extra, history=None):
    def mk(ex, st):
        # `history`: the meta entries an earlier, identical call of the same method left behind (the method must act again: a slice / a later edit of
        # the samples is not covered by what the metadata says was once done to the record)
        st.env["self"] = sym_obj(ex, st, "SeismicRecording3C", {"ns": SObj("TimeSeries", NS_ID, "param:self.ns"), "ew": SObj("TimeSeries", EW_ID, "param:self.ew"),
                                                                "vt": SObj("TimeSeries", VT_ID, "param:self.vt"), "degrees_from_north": DEG,
                                                                "meta": DictV(dict(history or {}), owner="param:self.meta")}, owner="param:self")
        st.env.update(extra)
        st.env["__WC"] = WR_C0
        return [NS_ID != EW_ID, NS_ID != VT_ID, EW_ID != VT_ID]
    return mk


def _wrapper(method, extra, apply, history=None):
    gh = {"C": FuncV(lambda ex, st, a, k, n_: z3.Select(st.env["__WC"], a[0]), "C"), "C0": lambda i: z3.Select(WR_C0, i), "NS_ID": NS_ID, "EW_ID": EW_ID, "VT_ID": VT_ID,
          "APPLY": apply}
    return Contract(qual=f"hvsrpy.seismic_recording_3c.SeismicRecording3C.{method}", params=["self"] + list(extra), ghost=gh, make_inputs=_wr_inputs(extra, history),
                    ensures=["C(NS_ID) == APPLY(C0(NS_ID))", "C(EW_ID) == APPLY(C0(EW_ID))", "C(VT_ID) == APPLY(C0(VT_ID))"], modifies=["param:self", "param:self.meta"],
                    notes="the TimeSeries method is applied once to each of ns, ew, vt with the caller's arguments")


_WRAPPERS = [
    ("trim", {"start_time": T0, "end_time": T1}, lambda c: TRIMF(c, T0, T1)),
    ("detrend", {"type": StrV("constant")}, lambda c: DETRF(c, z3.IntVal(_CODE["constant"]))),
    ("window", {"type": StrV("tukey"), "width": WWID}, lambda c: WINF(c, z3.IntVal(_CODE["tukey"]), WWID)),
    ("butterworth_filter", {"fcs_in_hz": Tup((BLO, BHI)), "order": BORD}, lambda c: BUTF(c, BLO, BHI, BORD)),
]
_WR_REG = {"TimeSeries.trim": FuncV(_m_ts_trim, "trim"), "TimeSeries.detrend": FuncV(_m_ts_detrend, "detrend"), "TimeSeries.window": FuncV(_m_ts_window, "window"),
           "TimeSeries.butterworth_filter": FuncV(_m_ts_butter, "butterworth_filter")}
_HIST = {"trim": {"trim": Tup((T0, T1))}, "detrend": {"detrend": StrV("constant")}, "window": {"window_type_and_width": Tup((StrV("tukey"), WWID))},
         "butterworth_filter": {"butterworth_filter": Tup((BLO, BHI))}}
for _m, _extra, _apply in _WRAPPERS:
    for _h in (None, _HIST[_m]):
        _c = _wrapper(_m, _extra, _apply, _h)
        _c.ghost_state = ("__WC",)
        TASKS.append(FunctionTask(_c, registry=_WR_REG, label=f"hvsrpy.seismic_recording_3c.SeismicRecording3C.{_m}" + ("[after an identical earlier call]" if _h else ""),
                                  clauses=[f"SeismicRecording3C.{_m} acts on all three components with the same arguments, whatever the metadata says was done before"]))

# the sampling rate the filter is designed for (TimeSeries.fs, contract in contracts/C18.py): exactly 1 / dt, whole number of hertz or not
import contracts.C18 as _C18
TASKS += [t for t in _C18.TASKS if getattr(t, "label", "").endswith("TimeSeries.fs")]
