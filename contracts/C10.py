"""C10 - preprocessing applies the documented steps in order; windows tile the record (timeseries.py, seismic_recording_3c.py,
preprocessing.py).

Under contract: TimeSeries.split (samples per window under the floating-point model of DESIGN 4.4, tiling, shared boundary
sample, error for a window longer than the record), the three TimeSeries properties it relies on.
"""
import z3

from pyvc.core import I, R, B, Tup
from pyvc.contract import Contract, FunctionTask, sym_arr1, sym_obj
from pyvc import objects
from pyvc.objects import SObj, fld, arr_len, arr_at

N = z3.Int("N")
dt = z3.Real("dt")
Lw = z3.Real("window_length_in_seconds")


# ---------------------------------------------------------------- TimeSeries(amplitude, dt) constructor as seen by callers
def ts_ctor_result(ex, st, env):
    oid = ex.fresh("ts", I)
    a = env["amplitude"]
    d = ex.arr(st, a)
    j = z3.Int("j!ctor")
    st.pc += [arr_len("TimeSeries", "amplitude", oid) == d.shape[0],
              z3.ForAll([j], z3.Implies(z3.And(j >= 0, j < d.shape[0]), arr_at("TimeSeries", "amplitude", oid, j) == z3.Select(d.data, j)),
                        patterns=[arr_at("TimeSeries", "amplitude", oid, j)]),
              fld("TimeSeries", "dt_in_seconds", R)(oid) == env["dt_in_seconds"]]
    return SObj("TimeSeries", oid, owner="fresh")


TS_CTOR = Contract(
    qual="hvsrpy.timeseries.TimeSeries.__init__", params=["amplitude", "dt_in_seconds"],
    requires=[], ensures=[], make_result=ts_ctor_result,
    notes="np.array(amplitude, dtype=double) copies: the new object owns fresh storage holding the same samples (A-NP-ALLOC); verified in C18")


def _self_ts(ex, st):
    amp = sym_arr1(ex, st, "self_amplitude", N, owner="param:self.amplitude")
    st.env["self"] = sym_obj(ex, st, "TimeSeries", {"amplitude": amp, "dt_in_seconds": dt}, owner="param:self")
    st.env["N"], st.env["dt"] = N, dt
    return [N >= 0, dt > 0]


def _split_inputs(ex, st):
    facts = _self_ts(ex, st)
    st.env["window_length_in_seconds"] = Lw
    return facts


Q = "(window_length_in_seconds / self.dt_in_seconds)"
SPLIT = Contract(
    qual="hvsrpy.timeseries.TimeSeries.split", params=["self", "window_length_in_seconds"],
    requires=["window_length_in_seconds > 0", "N >= 1",
              # stated bound on the input domain: at least one and at most 10**6 sample intervals per window
              f"{Q} >= 1", f"{Q} <= 1000000"],
    raises={"ValueError": "N < intervals_per_window"},
    ensures=[
        # k = number of whole sample intervals, tolerant to the rounding of dt and of the division
        "intervals_per_window >= 1",
        f"forall(mm, 1, 1000001, implies(abs({Q} - mm) <= mm / 1125899906842624, intervals_per_window == mm))",
        f"forall(mm, 0, 1000001, implies({Q} - mm >= 2/1000000 and (mm + 1) - {Q} >= 2/1000000, intervals_per_window == mm))",
        # tiling
        "len(result) == N // intervals_per_window",
        "forall(j, 0, len(result), len(result[j].amplitude) == ite(j*intervals_per_window + intervals_per_window + 1 <= N, intervals_per_window + 1, N - j*intervals_per_window))",
        "forall(j, 0, len(result), forall(t, 0, len(result[j].amplitude), result[j].amplitude[t] == old(self.amplitude)[j*intervals_per_window + t]))",
        "forall(j, 0, len(result), result[j].dt_in_seconds == self.dt_in_seconds)",
        # discarded tail shorter than one window; only a final window ending with the record may be one sample short
        "N - (len(result) * intervals_per_window) < intervals_per_window",
    ],
    loops={0: ["start_idx == _k0 * intervals_per_window", "len(windows) == _k0",
               "forall(j, 0, _k0, len(windows[j].amplitude) == ite(j*intervals_per_window + intervals_per_window + 1 <= N, intervals_per_window + 1, N - j*intervals_per_window))",
               "forall(j, 0, _k0, forall(t, 0, len(windows[j].amplitude), windows[j].amplitude[t] == self.amplitude[j*intervals_per_window + t]))",
               "forall(j, 0, _k0, windows[j].dt_in_seconds == self.dt_in_seconds)"]},
    sym_lists={"windows": "TimeSeries"}, float_model=True, modifies=[],
    make_inputs=_split_inputs,
    notes="float model: fl(a/b) and fl(a+b) carry a relative error <= 2**-53; 1125899906842624 = 2**50")

TASKS = [FunctionTask(SPLIT, module_env={"TimeSeries": TS_CTOR}, clauses=["k whole sample intervals; windows tile the record sharing boundary samples"])]

META = dict(
    level="other",
    explanation="proved: TimeSeries.split (interval count under the float model, tiling, shared boundary sample, error case, frame); bounded: "
                "order of the preprocessing steps (orient, filter whole record, split, detrend per window) and component-wise split of recordings",
    trusted_base=["A-REAL except / and + in TimeSeries.split which use the relative-error float model", "A-PY", "A-NP-ALLOC", "PyVC engine + z3/cvc5"],
    assumptions=["A-REAL", "A-FLOAT-MODEL(split)", "A-PY", "A-NP-ALLOC"],
)
