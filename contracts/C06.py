"""C06 - frequency-domain window rejection follows Cox et al. (2020) and terminates (window_rejection.py).

The iterative driver calls six statistics accessors of the HVSR object per iteration; those are numpy-vectorised (C05) and are
outside the PyVC subset, so the algorithm-level clauses are evaluated natively against an independent re-implementation
(bounded/C06.py).  Structural obligations proved here from the AST: the iteration is a `for` over range(1, max_iterations + 1)
(termination, at most max_iterations iterations) and every exit of _frequency_domain_window_rejection returns an iteration number.
"""
import ast

from pyvc.contract import StructTask


def structure(loader):
    fn, _ = loader.find("hvsrpy.window_rejection._frequency_domain_window_rejection")
    body = loader.strip_docstring(fn)
    out = []
    loop = body[0] if body else None
    ok = isinstance(loop, ast.For) and isinstance(loop.iter, ast.Call) and ast.unparse(loop.iter) == "range(1, max_iterations + 1)" \
        and isinstance(loop.target, ast.Name)
    out.append(("outer loop is `for c in range(1, max_iterations + 1)` (bounded iteration, terminates)", ok, ast.unparse(loop.iter) if isinstance(loop, ast.For) else "no loop"))
    cvar = loop.target.id if ok else None
    rets = [n for n in ast.walk(fn) if isinstance(n, ast.Return)]
    inside = [r for r in rets if any(r in ast.walk(x) for x in loop.body)] if ok else []
    out.append(("every return inside the loop returns the iteration counter", bool(inside) and all(isinstance(r.value, ast.Name) and r.value.id == cvar for r in inside),
                str([ast.unparse(r) for r in inside])))
    tail = body[1:] if ok else []
    out.append(("the fall-through exit returns max_iterations (the number of iterations performed at the limit)",
                len(tail) == 1 and isinstance(tail[0], ast.Return) and ast.unparse(tail[0]) == "return max_iterations", str([ast.unparse(t) for t in tail])))
    whiles = [n for n in ast.walk(fn) if isinstance(n, ast.While)]
    out.append(("no unbounded loop", not whiles, f"{len(whiles)} while loops"))
    # masks are only ever written inside the `if not c_valid: continue` guard region: never re-accepts
    inner = [n for n in loop.body if isinstance(n, ast.For)] if ok else []
    guard_ok = False
    if len(inner) == 1:
        b = inner[0].body
        guard_ok = len(b) >= 1 and isinstance(b[0], ast.If) and ast.unparse(b[0].test) == "not c_valid" and any(isinstance(x, ast.Continue) for x in b[0].body)
        stores = [n for n in ast.walk(inner[0]) if isinstance(n, ast.Assign)]
        guard_ok = guard_ok and all(s in list(ast.walk(ast.Module(body=b[1:], type_ignores=[]))) for s in stores)
    out.append(("mask writes happen only for windows whose peak is currently accepted (a rejected window is never re-accepted)", guard_ok, ""))
    return out


TASKS = [StructTask("fdwra-structure", structure, textual=True)]

META = dict(
    level="other",
    explanation="_frequency_domain_window_rejection is under contract with its statistics accessors as uninterpreted functions of the current masks "
                "(MEANFN, STDFN, NTHFN of the accepted-peak mask; MCPEAK of the accepted-window mask; the distribution arguments are opaque and "
                "only passed through): for every number of windows, every mask pair, every n and max_iterations >= 1 the masks after the call "
                "equal the published iteration applied `result` times (ghost sequences PM/WM defined by their one-step axioms), `result` is the "
                "first iteration at which the published stopping rule holds or max_iterations, no window is re-accepted, and only the two masks "
                "are written. The entry point on an azimuthal object: range update then iteration on every azimuth with the caller's arguments, largest "
                "iteration count returned. Structural obligations on the driver are kept. That the accessors compute the textbook statistics is C05's "
                "contract; the outer wrapper (peak search set-up, azimuthal maximum), window-order and amplitude-scale invariance are evaluated "
                "natively against an independent re-implementation of Cox et al. (2020) - labelled bounded",
    trusted_base=["A-REAL", "numpy/scipy", "the AST pattern matcher of the structural task"],
    assumptions=["A-REAL", "A-FIND-PEAKS", "A-PERM (order invariance is sampled)",
                 "A-ACCESSOR-FUNCTIONAL: each statistics accessor is a function of the mask it reads, the (fixed) peak / amplitude arrays and its "
                 "distribution argument, and writes nothing (frames: C09; values: C05)"],
)


# ---------------------------------------------------------------------------------------------------------------------
# _frequency_domain_window_rejection under contract: the statistics accessors are opaque functions of the current masks (their own
# contracts are C05's); what is proved is that the driver performs exactly the published iteration on them.
import z3

from pyvc.core import I, R, B, FuncV, Tup
from pyvc.contract import Contract, FunctionTask, sym_arr1, sym_obj

K = z3.Int("K")                      # number of windows
AB = z3.ArraySort(I, B)
VP0, VW0 = z3.Const("valid_peak_on_entry", AB), z3.Const("valid_window_on_entry", AB)
FRQ = z3.Const("main_peak_frq", z3.ArraySort(I, R))
nn = z3.Real("n")
maxit = z3.Int("max_iterations")
dfn, dmc = z3.Ints("distribution_fn distribution_mc")     # opaque distribution arguments (only passed through)
MEANFN = z3.Function("MEANFN", AB, I, R)     # mean_fn_frequency as a function of the accepted-peak mask and the distribution argument
STDFN = z3.Function("STDFN", AB, I, R)
NTHFN = z3.Function("NTHFN", AB, R, I, R)
MCPEAK = z3.Function("MCPEAK", AB, I, R)     # frequency of the mean-curve peak as a function of the accepted-window mask
PM = z3.Function("PM", I, AB)                # accepted-peak mask after t iterations of the published algorithm
WM = z3.Function("WM", I, AB)


def zabs(x):
    return z3.If(x >= 0, x, -x)


def D(t):
    return zabs(MEANFN(PM(t), dfn) - MCPEAK(WM(t), dmc))


def S(t):
    return STDFN(PM(t), dfn)


def STOP(t):
    """the published stopping rule evaluated after iteration t (t >= 1)"""
    return z3.Or(D(t - 1) == 0, S(t - 1) == 0, S(t) == 0,
                 z3.And(zabs(D(t) - D(t - 1)) / D(t - 1) < z3.Q(1, 100), zabs(S(t) - S(t - 1)) < z3.Q(1, 100)))


t_, i_ = z3.Ints("t!f i!f")
INB = lambda t, i: z3.And(FRQ[i] > NTHFN(PM(t), -nn, dfn), FRQ[i] < NTHFN(PM(t), nn, dfn))
AX_FD = [
    PM(0) == VP0, WM(0) == VW0,
    z3.ForAll([t_, i_], z3.Implies(t_ >= 0, z3.Select(PM(t_ + 1), i_) == z3.If(z3.And(i_ >= 0, i_ < K, z3.Select(PM(t_), i_)), INB(t_, i_), z3.Select(PM(t_), i_))),
              patterns=[z3.Select(PM(t_ + 1), i_)]),
    z3.ForAll([t_, i_], z3.Implies(t_ >= 0, z3.Select(WM(t_ + 1), i_) == z3.If(z3.And(i_ >= 0, i_ < K, z3.Select(PM(t_), i_)), INB(t_, i_), z3.Select(WM(t_), i_))),
              patterns=[z3.Select(WM(t_ + 1), i_)]),
]


def _mask_of(st, obj, name):
    return st.heap[st.heap[obj.oid].fields[name].sid].data


def _accessors():
    return {
        "HvsrTraditional.mean_fn_frequency": FuncV(lambda ex, st, a, k, n_: MEANFN(_mask_of(st, a[0], "valid_peak_boolean_mask"), a[1]), "mean_fn_frequency"),
        "HvsrTraditional.std_fn_frequency": FuncV(lambda ex, st, a, k, n_: STDFN(_mask_of(st, a[0], "valid_peak_boolean_mask"), a[1]), "std_fn_frequency"),
        "HvsrTraditional.nth_std_fn_frequency": FuncV(lambda ex, st, a, k, n_: NTHFN(_mask_of(st, a[0], "valid_peak_boolean_mask"), a[1], a[2]), "nth_std_fn_frequency"),
        "HvsrTraditional.mean_curve_peak": FuncV(lambda ex, st, a, k, n_: Tup((MCPEAK(_mask_of(st, a[0], "valid_window_boolean_mask"), a[1]), ex.fresh("mc_peak_amp", R))), "mean_curve_peak"),
    }


def _fd_inputs(ex, st):
    vp = ex.alloc_arr(st, (K,), VP0, "bool", "param:hvsr.valid_peak_boolean_mask", tag="vp")
    vw = ex.alloc_arr(st, (K,), VW0, "bool", "param:hvsr.valid_window_boolean_mask", tag="vw")
    fq = ex.alloc_arr(st, (K,), FRQ, "real", "param:hvsr._main_peak_frq", tag="frq")
    st.env["hvsr"] = sym_obj(ex, st, "HvsrTraditional", {"valid_peak_boolean_mask": vp, "valid_window_boolean_mask": vw, "_main_peak_frq": fq}, owner="param:hvsr")
    st.env["n"], st.env["max_iterations"], st.env["distribution_fn"], st.env["distribution_mc"] = nn, maxit, dfn, dmc
    st.env["K"] = K
    return [K >= 0]


def _same(ex, st, args, kw, node):
    return st.heap[args[0].sid].data == args[1]


def _hvsr_havoc(ex, st, v):
    """the loops write elements of the two masks in place: same storage, unknown content (pinned down again by the invariants)"""
    from pyvc.core import ArrData
    for name in ("valid_peak_boolean_mask", "valid_window_boolean_mask"):
        ref = st.heap[v.oid].fields[name]
        d = st.heap[ref.sid]
        st.heap[ref.sid] = ArrData(d.shape, ex.fresh(name, AB), d.elem, d.owner, d.view_of)
    return v


GH_FD = {"raw": FuncV(lambda ex, st, a, k, n_: z3.Select(st.heap[a[0].sid].data, a[1]), "raw"), "PM": PM, "WM": WM, "same": FuncV(_same, "same"), "STOP": lambda t: STOP(t), "LO": lambda t: NTHFN(PM(t), -nn, dfn), "HI": lambda t: NTHFN(PM(t), nn, dfn),
         "VP0": VP0, "sel": lambda a, i: z3.Select(a, i)}

FD = Contract(
    qual="hvsrpy.window_rejection._frequency_domain_window_rejection", params=["hvsr", "n", "max_iterations", "distribution_fn", "distribution_mc"],
    ghost=GH_FD, requires=["max_iterations >= 1"],
    ensures=["1 <= result and result <= max_iterations",
             "same(hvsr.valid_peak_boolean_mask, PM(result))", "same(hvsr.valid_window_boolean_mask, WM(result))",
             "STOP(result) or result == max_iterations",
             "forall(t, 1, result, not STOP(t))",
             "forall(i, 0, K, implies(hvsr.valid_peak_boolean_mask[i], sel(VP0, i)))"],
    loops={0: ["same(hvsr.valid_peak_boolean_mask, PM(_k0))", "same(hvsr.valid_window_boolean_mask, WM(_k0))",
               "forall(t, 1, _k0 + 1, not STOP(t))", "forall(i, 0, K, implies(hvsr.valid_peak_boolean_mask[i], sel(VP0, i)))"],
           1: ["forall(i, 0, _k1, hvsr.valid_peak_boolean_mask[i] == sel(PM(_k0 + 1), i) and hvsr.valid_window_boolean_mask[i] == sel(WM(_k0 + 1), i))",
               "forall(i, _k1, K, hvsr.valid_peak_boolean_mask[i] == sel(PM(_k0), i) and hvsr.valid_window_boolean_mask[i] == sel(WM(_k0), i))",
               "forall(i, None, 0, raw(hvsr.valid_peak_boolean_mask, i) == sel(PM(_k0), i) and raw(hvsr.valid_window_boolean_mask, i) == sel(WM(_k0), i))",
               "forall(i, K, None, raw(hvsr.valid_peak_boolean_mask, i) == sel(PM(_k0), i) and raw(hvsr.valid_window_boolean_mask, i) == sel(WM(_k0), i))",
               "forall(i, 0, K, implies(hvsr.valid_peak_boolean_mask[i], sel(VP0, i)))"]},
    axioms=AX_FD, make_inputs=_fd_inputs, obj_havoc={"hvsr": _hvsr_havoc}, modifies=["param:hvsr.valid_peak_boolean_mask", "param:hvsr.valid_window_boolean_mask"],
    notes="masks after the call = the published iteration applied `result` times; result = first iteration at which the published stopping rule holds, or "
          "max_iterations; never re-accepts; only the two masks are written")

TASKS.append(FunctionTask(FD, registry=_accessors(), clauses=["exactly the accept/reject decisions and iteration count of the published algorithm; never re-accepts; at most max_iterations"]))


# ---------------------------------------------------------------------------------------------------------------------
# frequency_domain_window_rejection (entry point): every HvsrTraditional of the object gets the peak search in the requested range first and the
# iteration second, with the caller's arguments; the value returned is the largest iteration count.  Object state is one abstract content
# per object id in a ghost map (update_peaks_bounded -> UPB, the driver above -> FDW; iteration count ITERS of the content it started from).
from pyvc.core import StrV, NONE, DictV, ClsV, Tup
from pyvc.objects import new_symlist, SObj

NAZ = z3.Int("n_hvsrs")
HIDS = z3.Const("hvsr_ids", z3.ArraySort(I, I))
HC0 = z3.Const("content_on_entry", z3.ArraySort(I, I))
UPB = z3.Function("UPB", I, R, R, I, I)                 # content after update_peaks_bounded(range, kwargs-code)
FDW = z3.Function("FDW", I, R, I, I, I, I)              # content after the driver (n, max_iterations, distribution_fn, distribution_mc)
ITERS = z3.Function("ITERS", I, R, I, I, I, I)          # iterations the driver reports for that content
SLO, SHI = z3.Reals("f_low f_high")
KWC = z3.Int("find_peaks_kwargs_code")


def _after_upb(h):
    return UPB(z3.Select(HC0, h), SLO, SHI, KWC)


def _m_upb(ex, st, args, kw, node):
    h = args[0]
    lo, hi = kw["search_range_in_hz"]
    st.env["__HC"] = z3.Store(st.env["__HC"], h.id, UPB(z3.Select(st.env["__HC"], h.id), lit_(lo), lit_(hi), kw["find_peaks_kwargs"]))
    return NONE


ISH = z3.Function("ISH", I, B)        # the object is one of the azimuthal object's per-azimuth results


def _m_upb_parent(ex, st, args, kw, node):
    """HvsrAzimuthal.update_peaks_bounded: the range is recorded on the parent and handed to every per-azimuth object (C08)"""
    lo, hi = kw["search_range_in_hz"]
    h = z3.Int("h!up")
    cur = st.env["__HC"]
    st.env["__HC"] = z3.Lambda([h], z3.If(ISH(h), UPB(z3.Select(cur, h), lit_(lo), lit_(hi), kw["find_peaks_kwargs"]), z3.Select(cur, h)))
    return NONE


def _m_driver(ex, st, args, kw, node):
    h = kw["hvsr"]
    c = z3.Select(st.env["__HC"], h.id)
    a = (kw["n"], kw["max_iterations"], kw["distribution_fn"], kw["distribution_mc"])
    st.env["__HC"] = z3.Store(st.env["__HC"], h.id, FDW(c, *a))
    st.pc.append(z3.And(ITERS(c, *a) >= 1, ITERS(c, *a) <= kw["max_iterations"]))      # the driver's proved postcondition
    return ITERS(c, *a)


from pyvc.core import lit as lit_


def _entry_inputs(ex, st):
    hv = new_symlist(ex, st, "HvsrTraditional", length=NAZ, arr=HIDS, owner="param:hvsr.hvsrs", name="hvsrs")
    st.env["hvsr"] = sym_obj(ex, st, "HvsrAzimuthal", {"hvsrs": hv, "meta": DictV({})}, owner="param:hvsr")
    st.env["n"], st.env["max_iterations"], st.env["distribution_fn"], st.env["distribution_mc"] = nn, maxit, dfn, dmc
    st.env["search_range_in_hz"], st.env["find_peaks_kwargs"] = Tup((SLO, SHI)), KWC
    st.env["__HC"] = HC0
    st.env["NAZ"] = NAZ
    a, b = z3.Ints("a!in b!in")
    return [NAZ >= 1, maxit >= 1, z3.ForAll([a, b], z3.Implies(z3.And(0 <= a, a < b, b < NAZ), z3.Select(HIDS, a) != z3.Select(HIDS, b)))]


_ARGS = (nn, maxit, dfn, dmc)
GH_EN = {"HC": FuncV(lambda ex, st, a, k, n_: z3.Select(st.env["__HC"], a[0]), "HC"), "HC0": lambda h: z3.Select(HC0, h), "HID": lambda a: z3.Select(HIDS, a),
         "DONE": lambda h: FDW(_after_upb(h), *_ARGS), "IT": lambda h: ITERS(_after_upb(h), *_ARGS), "SEARCHED": lambda h: _after_upb(h)}
_c, _lo, _hi, _kk, _aa = z3.Int("c!u"), z3.Real("lo!u"), z3.Real("hi!u"), z3.Int("k!u"), z3.Int("a!u")
AX_EN = [
    # searching again with the range and filters already stored changes nothing (early return of update_peaks_bounded: proved in C08)
    z3.ForAll([_c, _lo, _hi, _kk], UPB(UPB(_c, _lo, _hi, _kk), _lo, _hi, _kk) == UPB(_c, _lo, _hi, _kk), patterns=[UPB(UPB(_c, _lo, _hi, _kk), _lo, _hi, _kk)]),
    z3.ForAll([_aa], z3.Implies(z3.And(_aa >= 0, _aa < NAZ), ISH(z3.Select(HIDS, _aa))), patterns=[z3.Select(HIDS, _aa)]),
]
ENTRY = Contract(
    qual="hvsrpy.window_rejection.frequency_domain_window_rejection",
    params=["hvsr", "n", "max_iterations", "distribution_fn", "distribution_mc", "search_range_in_hz", "find_peaks_kwargs"], ghost=GH_EN, axioms=AX_EN,
    make_inputs=_entry_inputs, obj_havoc={"hvsr": lambda ex, st, v: v},
    ensures=["forall(a, 0, NAZ, HC(HID(a)) == DONE(HID(a)))", "forall(a, 0, NAZ, IT(HID(a)) <= result)", "exists(a, 0, NAZ, IT(HID(a)) == result)"],
    loops={0: ["forall(a, 0, _k0, HC(HID(a)) == DONE(HID(a)))", "forall(a, _k0, NAZ, HC(HID(a)) == SEARCHED(HID(a)))",
               "forall(a, 0, _k0, IT(HID(a)) <= max_performed_iterations)",
               "(_k0 == 0 and max_performed_iterations == 0) or exists(a, 0, _k0, IT(HID(a)) == max_performed_iterations)"]},
    modifies=["param:hvsr"], notes="every azimuth: peak search in the requested range, then the iteration with the caller's arguments; returns the largest count")
ENTRY.ghost_state = ("__HC",)
TASKS.append(FunctionTask(ENTRY, registry={"HvsrTraditional.update_peaks_bounded": FuncV(_m_upb, "update_peaks_bounded"),
                                           "HvsrAzimuthal.update_peaks_bounded": FuncV(_m_upb_parent, "update_peaks_bounded")},
                          module_env={"HvsrTraditional": ClsV("HvsrTraditional"), "HvsrAzimuthal": ClsV("HvsrAzimuthal"),
                                      "_frequency_domain_window_rejection": FuncV(_m_driver, "_frequency_domain_window_rejection")},
                          label="hvsrpy.window_rejection.frequency_domain_window_rejection[azimuthal]",
                          clauses=["azimuthal: the algorithm runs on every azimuth after the range update; the maximum iteration count is returned"]))


# ---------------------------------------------------------------------------------------------------------------------
# the same entry point on a traditional object: one peak search in the requested range, one run of the iteration, its count returned
HT = z3.Int("traditional_id")


def _entry_trad_inputs(ex, st):
    st.env["hvsr"] = SObj("HvsrTraditional", HT, owner="param:hvsr")
    st.env["n"], st.env["max_iterations"], st.env["distribution_fn"], st.env["distribution_mc"] = nn, maxit, dfn, dmc
    st.env["search_range_in_hz"], st.env["find_peaks_kwargs"] = Tup((SLO, SHI)), KWC
    st.env["__HC"] = HC0
    return [maxit >= 1]


def _m_meta_of(ex, st, args, kw, node):
    return DictV({}, owner="param:hvsr.meta")


ENTRY_T = Contract(
    qual="hvsrpy.window_rejection.frequency_domain_window_rejection",
    params=["hvsr", "n", "max_iterations", "distribution_fn", "distribution_mc", "search_range_in_hz", "find_peaks_kwargs"],
    ghost=dict(GH_EN, HT=HT), axioms=AX_EN[:1], make_inputs=_entry_trad_inputs,
    ensures=["HC(HT) == DONE(HT)", "result == IT(HT)", "forall(h, None, None, implies(h != HT, HC(h) == HC0(h)))"],
    modifies=["param:hvsr", "param:hvsr.meta"],
    notes="traditional object: the peak search in the requested range, then the iteration with the caller's arguments on that object only; its count is returned")
ENTRY_T.ghost_state = ("__HC",)
from pyvc import objects as _objs
if "meta" not in _objs.SCHEMA["HvsrTraditional"]:
    _objs.SCHEMA["HvsrTraditional"]["meta"] = ("derived", lambda ex, st, o: DictV({}, owner=f"{o.owner}.meta"))
TASKS.append(FunctionTask(ENTRY_T, registry={"HvsrTraditional.update_peaks_bounded": FuncV(_m_upb, "update_peaks_bounded")},
                          module_env={"HvsrTraditional": ClsV("HvsrTraditional"), "HvsrAzimuthal": ClsV("HvsrAzimuthal"),
                                      "_frequency_domain_window_rejection": FuncV(_m_driver, "_frequency_domain_window_rejection")},
                          label="hvsrpy.window_rejection.frequency_domain_window_rejection[traditional]",
                          clauses=["traditional: the algorithm runs once on the object after the range update; its iteration count is returned"]))


# ---------------------------------------------------------------------------------------------------------------------
# HvsrAzimuthal.update_peaks_bounded (the model _m_upb_parent above, now proved): the range and filters are recorded on the azimuthal object and every
# per-azimuth object - and no other object - is searched with exactly the caller's range and filters
KWD = z3.Function("find_peaks_kwargs_code_of", R, I)
PROM = z3.Real("prominence")


def _upa_inputs(kw):
    def mk(ex, st):
        hv = new_symlist(ex, st, "HvsrTraditional", length=NAZ, arr=HIDS, owner="param:self.hvsrs", name="hvsrs")
        st.env["self"] = sym_obj(ex, st, "HvsrAzimuthal", {"hvsrs": hv, "meta": DictV({}, owner="param:self.meta")}, owner="param:self")
        st.env["search_range_in_hz"] = Tup((SLO, SHI))
        st.env["find_peaks_kwargs"] = NONE if kw == "None" else DictV({"prominence": PROM})
        st.env["__HC"] = HC0
        st.env["NAZ"] = NAZ
        a, b = z3.Ints("a!in b!in")
        return [NAZ >= 0, KWC == (z3.IntVal(0) if kw == "None" else KWD(PROM)),
                z3.ForAll([a, b], z3.Implies(z3.And(0 <= a, a < b, b < NAZ), z3.Select(HIDS, a) != z3.Select(HIDS, b)))]
    return mk


def _m_upb_coded(ex, st, args, kw, node):
    """HvsrTraditional.update_peaks_bounded on a per-azimuth object: its content becomes UPB(content, range, filters) (contract: C08)"""
    h = args[0]
    lo, hi = kw["search_range_in_hz"]
    f = kw["find_peaks_kwargs"]
    from pyvc.core import NoneV
    code = z3.IntVal(0) if isinstance(f, NoneV) else (KWD(lit_(f.items["prominence"])) if isinstance(f, DictV) and set(f.items) == {"prominence"} else None)
    if code is None:
        raise Undecided("filters other than None / {'prominence': p}")
    st.env["__HC"] = z3.Store(st.env["__HC"], h.id, UPB(z3.Select(st.env["__HC"], h.id), lit_(lo), lit_(hi), code))
    return NONE


from pyvc.core import Undecided
_IN = "exists(a, 0, NAZ, HID(a) == h)"
for _kw in ("None", "dict"):
    _c = Contract(
        qual="hvsrpy.hvsr_azimuthal.HvsrAzimuthal.update_peaks_bounded", params=["self", "search_range_in_hz", "find_peaks_kwargs"],
        ghost=dict(GH_EN, is_none=FuncV(lambda ex, st, a, k, n_: z3.BoolVal(a[0] is NONE), "is_none")), make_inputs=_upa_inputs(_kw),
        ensures=["forall(a, 0, NAZ, HC(HID(a)) == SEARCHED(HID(a)))", f"forall(h, None, None, implies(not {_IN}, HC(h) == HC0(h)))",
                 "self.meta['search_range_in_hz'] == search_range_in_hz",
                 "is_none(self.meta['find_peaks_kwargs'])" if _kw == "None" else
                 "self.meta['find_peaks_kwargs']['prominence'] == find_peaks_kwargs['prominence'] and not (self.meta['find_peaks_kwargs'] is find_peaks_kwargs)"],
        loops={0: ["forall(a, 0, _k0, HC(HID(a)) == SEARCHED(HID(a)))", "forall(a, _k0, NAZ, HC(HID(a)) == HC0(HID(a)))",
                   f"forall(h, None, None, implies(not {_IN}, HC(h) == HC0(h)))"]},
        modifies=["param:self", "param:self.meta"],
        notes="the azimuthal fan-out of the peak search: every azimuth is searched with the caller's range and filters, the range is recorded on the parent "
              "(a copy of the filters dictionary, not the caller's object)")
    _c.ghost_state = ("__HC",)
    TASKS.append(FunctionTask(_c, registry={"HvsrTraditional.update_peaks_bounded": FuncV(_m_upb_coded, "update_peaks_bounded")},
                              label=f"hvsrpy.hvsr_azimuthal.HvsrAzimuthal.update_peaks_bounded[kwargs={_kw}]",
                              clauses=["changing the range re-evaluates every azimuth's peaks with the caller's range and filters"]))
