"""C06 - frequency-domain window rejection follows Cox et al. (2020) and terminates (window_rejection.py).

The iterative driver calls six statistics accessors of the HVSR object per iteration; those are numpy-vectorised (C05) and are
outside the PyVC subset, so the algorithm-level clauses are evaluated natively against an independent re-implementation
(bounded/C06.py).  Structural obligations proved here from the AST: the iteration is a `for` over range(1, max_iterations + 1)
(termination, at most max_iterations iterations) and every exit of _frequency_domain_window_rejection returns an iteration number.
"""
import ast

from pyvc.contract import StructTask


def structure(loader):
    fn, _ = loader.find("hvsrpy.window_rejection._frequency_domain_window_rejection")
    body = loader.strip_docstring(fn)
    out = []
    loop = body[0] if body else None
    ok = isinstance(loop, ast.For) and isinstance(loop.iter, ast.Call) and ast.unparse(loop.iter) == "range(1, max_iterations + 1)" \
        and isinstance(loop.target, ast.Name)
    out.append(("outer loop is `for c in range(1, max_iterations + 1)` (bounded iteration, terminates)", ok, ast.unparse(loop.iter) if isinstance(loop, ast.For) else "no loop"))
    cvar = loop.target.id if ok else None
    rets = [n for n in ast.walk(fn) if isinstance(n, ast.Return)]
    inside = [r for r in rets if any(r in ast.walk(x) for x in loop.body)] if ok else []
    out.append(("every return inside the loop returns the iteration counter", bool(inside) and all(isinstance(r.value, ast.Name) and r.value.id == cvar for r in inside),
                str([ast.unparse(r) for r in inside])))
    tail = body[1:] if ok else []
    out.append(("the fall-through exit returns max_iterations (the number of iterations performed at the limit)",
                len(tail) == 1 and isinstance(tail[0], ast.Return) and ast.unparse(tail[0]) == "return max_iterations", str([ast.unparse(t) for t in tail])))
    whiles = [n for n in ast.walk(fn) if isinstance(n, ast.While)]
    out.append(("no unbounded loop", not whiles, f"{len(whiles)} while loops"))
    # masks are only ever written inside the `if not c_valid: continue` guard region: never re-accepts
    inner = [n for n in loop.body if isinstance(n, ast.For)] if ok else []
    guard_ok = False
    if len(inner) == 1:
        b = inner[0].body
        guard_ok = len(b) >= 1 and isinstance(b[0], ast.If) and ast.unparse(b[0].test) == "not c_valid" and any(isinstance(x, ast.Continue) for x in b[0].body)
        stores = [n for n in ast.walk(inner[0]) if isinstance(n, ast.Assign)]
        guard_ok = guard_ok and all(s in list(ast.walk(ast.Module(body=b[1:], type_ignores=[]))) for s in stores)
    out.append(("mask writes happen only for windows whose peak is currently accepted (a rejected window is never re-accepted)", guard_ok, ""))
    return out


TASKS = [StructTask("fdwra-structure", structure)]

META = dict(
    level="other",
    explanation="structural obligations on the driver (bounded for-loop, every exit returns the iteration number, mask writes guarded by the current "
                "accept flag); the algorithm itself (decisions, iteration count, never re-accepting, window-order and amplitude-scale invariance, "
                "azimuthal maximum) is evaluated natively against an independent re-implementation of Cox et al. (2020) - labelled bounded; the "
                "statistics accessors the driver calls are vectorised numpy outside the PyVC subset",
    trusted_base=["A-REAL", "numpy/scipy", "the AST pattern matcher of the structural task"],
    assumptions=["A-REAL", "A-FIND-PEAKS", "A-PERM (order invariance is sampled)"],
)
