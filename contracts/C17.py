"""C17 - power spectral densities are correctly normalised; diffuse-field HVSR agrees (processing.py, preprocessing.py, instrument_response.py).

Lemmas over the PSD spec (Welch averaging, amplitude scaling) are proved here; the function bodies use complex FFT output, in-place scaling of
arrays by np.mean of a tapered window and external rfft/irfft/freqs, and are evaluated natively (bounded/C17.py).
"""
import z3

from pyvc.contract import LemmaTask

# PSD spec for one bin: psd = 2 * sum_w P_w / (mw2 * N * fs * W), P_w = |X_w[k]|^2
P1, P2, P3, mw2, N, fs, k = z3.Reals("P1 P2 P3 mw2 N fs k")


def psd(ps):
    return 2 * sum(ps) / (mw2 * N * fs * len(ps))


pos = [mw2 > 0, N > 0, fs > 0]
TASKS = [
    LemmaTask("welch-average-2", pos, psd([P1, P2]) == (psd([P1]) + psd([P2])) / 2, "two windows: the density is the average of the single-window densities"),
    LemmaTask("welch-average-3", pos, psd([P1, P2, P3]) == (psd([P1]) + psd([P2]) + psd([P3])) / 3, "three windows"),
    LemmaTask("amplitude-scaling", pos, psd([k * k * P1, k * k * P2]) == k * k * psd([P1, P2]), "x -> k x scales |X|^2 and hence the density by k^2 (A-FFT-LIN)"),
]

# ---------------------------------------------------------------------------------------------------------------------
# _rpds_single_component under contract: accumulation over the windows and the Welch scaling chain.  window / rfft / conjugate / real are
# uninterpreted (the spectrum of a window is an opaque array of the window), the taper's mean square is the function's own local.
from pyvc.core import I, R, FuncV, ModV, DictV, StrV, Tup, ArrData, NONE, Undecided, real as real_
from pyvc.contract import Contract, FunctionTask, sym_obj
from pyvc import objects, npmodel as npm
from pyvc.objects import new_symlist

AR = z3.ArraySort(I, R)
L = z3.Int("n_windows")
TS = z3.Const("timeseries_ids", z3.ArraySort(I, I))
NFFT, NS0 = z3.Ints("n_fft n_samples")
DT0, WIDTH = z3.Reals("dt width")
TSAMP = objects.arr_term("TimeSeries", "amplitude")
TSLEN = objects.fld("TimeSeries", "amplitude_len", I)
TSDT = objects.fld("TimeSeries", "dt_in_seconds", R)
WIN = z3.Function("WIN", AR, I, R, AR)
RFFT = z3.Function("RFFT", AR, I, I, AR)
CONJ = z3.Function("CONJ", AR, AR)
REALP = z3.Function("REALP", R, R)
ONES = z3.Const("ones", AR)
PSUM = z3.Function("PSUM", I, I, R)          # PSUM(k, c) = sum over the first k windows of the power of bin c, each divided by its taper's mean square and its length
TMS = z3.Function("TAPER_MEAN_SQUARE", I, R, R)   # mean square of the taper of a given length and width (np.mean(window(ones)**2): opaque, positive)


def SPEC(tsid):
    return RFFT(WIN(TSAMP(tsid), TSLEN(tsid), WIDTH), TSLEN(tsid), NFFT)


def PW(tsid, c):
    return REALP(z3.Select(CONJ(SPEC(tsid)), c) * z3.Select(SPEC(tsid), c))


_k, _c = z3.Ints("k!p c!p")
AX_PSD = [z3.ForAll([_c], PSUM(0, _c) == 0, patterns=[PSUM(0, _c)]),
          z3.ForAll([_k, _c], z3.Implies(_k >= 0, PSUM(_k + 1, _c) == PSUM(_k, _c) + PW(z3.Select(TS, _k), _c) / TMS(TSLEN(z3.Select(TS, _k)), WIDTH)
                                         / z3.ToReal(TSLEN(z3.Select(TS, _k)))), patterns=[PSUM(_k + 1, _c)])]


def _m_from_timeseries(ex, st, args, kw, node):
    ts = args[0]
    amp = ex.alloc_arr(st, (TSLEN(ts.id),), TSAMP(ts.id), "real", "fresh", tag="copy")
    return ex.alloc_obj(st, "TimeSeries", {"amplitude": amp, "dt_in_seconds": TSDT(ts.id)}, "fresh")


def _m_ctor(ex, st, args, kw, node):
    a = ex.arr(st, kw["amplitude"] if "amplitude" in kw else args[0])
    return ex.alloc_obj(st, "TimeSeries", {"amplitude": ex.alloc_arr(st, a.shape, a.data, "real", "fresh", tag="copy"),
                                          "dt_in_seconds": kw["dt_in_seconds"] if "dt_in_seconds" in kw else args[1]}, "fresh")


def _m_window(ex, st, args, kw, node):
    ref = st.heap[args[0].oid].fields["amplitude"]
    d = st.heap[ref.sid]
    st.heap[ref.sid] = ArrData(d.shape, WIN(d.data, d.shape[0], z3.simplify(real_(args[2]))), d.elem, d.owner, d.view_of)
    return NONE


def _m_rfft(ex, st, args, kw, node):
    d = ex.arr(st, args[0])
    return ex.alloc_arr(st, (kw["n"] / 2 + 1,), RFFT(d.data, d.shape[0], kw["n"]), "real", "fresh", tag="rfft")


def _m_conj(ex, st, args, kw, node):
    d = ex.arr(st, args[0])
    return ex.alloc_arr(st, d.shape, CONJ(d.data), "real", "fresh", tag="conj")


def _m_real(ex, st, args, kw, node):
    return ex.map1(st, args[0], lambda x: REALP(x), "real")


def _m_ones_like(ex, st, args, kw, node):
    return ex.alloc_arr(st, ex.arr(st, args[0]).shape, ONES, "real", "fresh", tag="ones")


def _find_taper(t):
    """the application WIN(ONES, n, width) inside a term, if any"""
    if z3.is_app(t):
        if t.decl().eq(WIN) and t.arg(0).eq(ONES):
            return t
        for ch in t.children():
            r = _find_taper(ch)
            if r is not None:
                return r
    if z3.is_quantifier(t):
        return _find_taper(t.body())
    return None


def _m_mean(ex, st, args, kw, node):
    """np.mean(window.amplitude**2) of a tapered all-ones series: the taper's mean square for that length and width"""
    d = ex.arr(st, args[0])
    i0 = z3.Int("i!tms")
    e = z3.simplify(z3.Select(d.data, i0))
    w = _find_taper(e)
    if w is None or not z3.simplify(e - z3.Select(w, i0) * z3.Select(w, i0)).eq(z3.RealVal(0)):
        raise Undecided("np.mean of something other than the squared taper")
    r = TMS(w.arg(1), w.arg(2))
    st.pc.append(r > 0)          # assumption: the taper is not identically zero
    return r


_NP = ModV("np", dict(npm.NP.attrs, conjugate=FuncV(_m_conj, "np.conjugate"), real=FuncV(_m_real, "np.real"), ones_like=FuncV(_m_ones_like, "np.ones_like"),
                      mean=FuncV(_m_mean, "np.mean")))


def _rpds_inputs(ex, st):
    st.env["timeseries"] = new_symlist(ex, st, "TimeSeries", length=L, arr=TS, owner="param:timeseries", name="timeseries")
    st.env["settings"] = sym_obj(ex, st, "Settings", {"fft_settings": DictV({"n": NFFT}), "window_type_and_width": Tup((StrV("tukey"), WIDTH))}, owner="param:settings")
    st.env["L"], st.env["NFFT"], st.env["DT0"] = L, NFFT, DT0
    k = z3.Int("k!in")
    return [L >= 1, NFFT >= 2, NFFT % 2 == 0, DT0 > 0,
            z3.ForAll([k], z3.And(TSLEN(z3.Select(TS, k)) >= 1, TSDT(z3.Select(TS, k)) == DT0), patterns=[z3.Select(TS, k)])]


def _tseries_havoc(ex, st, v):
    amp = ex.alloc_arr(st, (ex.fresh("len", I),), ex.fresh("samples", AR), "real", "fresh", tag="copy")
    return ex.alloc_obj(st, "TimeSeries", {"amplitude": amp, "dt_in_seconds": ex.fresh("dt", R)}, "fresh")


RPDS = Contract(
    qual="hvsrpy.processing._rpds_single_component", params=["timeseries", "settings"], axioms=AX_PSD,
    ghost={"PSUM": PSUM}, make_inputs=_rpds_inputs, obj_havoc={"tseries": _tseries_havoc}, stable_shapes=("psd",),
    requires=[],
    ensures=["len(result) == NFFT / 2 + 1",
             "forall(c, 0, NFFT / 2 + 1, result[c] == ((PSUM(L, c) / (1 / DT0)) * 2) / L)"],
    loops={0: ["forall(c, 0, NFFT / 2 + 1, psd[c] == PSUM(_k0, c))",
               "_k0 == 0 or tseries.dt_in_seconds == DT0"]},
    modifies=[], notes="sum over the windows of |X_w[c]|^2 / (mean square of that window's taper x that window's number of samples), divided by the sampling rate "
                       "and the number of windows, times two (one-sided): the average of the single-window densities also when a final window is one sample "
                       "short; equal time steps and an even FFT length are preconditions")
RPDS.array_fields_as_terms = True
RPDS.loop_born = {"tseries": _tseries_havoc}
TASKS.append(FunctionTask(RPDS, module_env={"np": _NP, "rfft": FuncV(_m_rfft, "rfft"),
                                            "TimeSeries": FuncV(_m_ctor, "TimeSeries", attrs={"from_timeseries": FuncV(_m_from_timeseries, "from_timeseries")})},
                          registry={"TimeSeries.window": FuncV(_m_window, "TimeSeries.window")},
                          clauses=["Welch accumulation and scaling chain"]))
S_, W_, n_, f_, l_ = z3.Reals("S W n f l")
TASKS.append(LemmaTask("scaling-chain-closed-form", [W_ > 0, n_ > 0, f_ > 0, l_ > 0], (((S_ / W_ / n_) / f_) * 2) / l_ == 2 * S_ / (W_ * n_ * f_ * l_),
                       "one window's term, scaled by the chain of in-place scalings, equals 2 P / (mw2 N fs W) - the PSD spec of the lemmas above"))
# Welch for windows of any lengths: the density of W windows is the average of the W single-window densities (one-window case of the same postcondition)
_p1, _p2, _t1, _t2, _n1, _n2, _fs = z3.Reals("p1 p2 t1 t2 n1 n2 fs")
TASKS.append(LemmaTask("welch-average-unequal-lengths", [_t1 > 0, _t2 > 0, _n1 > 0, _n2 > 0, _fs > 0],
                       (((0 + _p1 / _t1 / _n1 + _p2 / _t2 / _n2) / _fs) * 2) / 2 == ((((0 + _p1 / _t1 / _n1) / _fs) * 2) / 1 + (((0 + _p2 / _t2 / _n2) / _fs) * 2) / 1) / 2,
                       "two windows of different lengths: the postcondition's value is the average of the two one-window values"))

# diffuse_field_hvsr_processing and rpsd: which recordings / components / FFT length / operator arguments / formula give the result
import contracts.drv_psd as _DRVPSD
TASKS += _DRVPSD.TASKS

META = dict(
    level="other",
    explanation="proved: _rpds_single_component's accumulation over the windows and its scaling chain (window / rfft / conjugate / real opaque, taper mean "
                "square = the function's local), closed form of the chain, Welch-averaging and amplitude-scaling lemmas over the PSD spec; bounded: _rpds_single_component against the Welch-normalised "
                "periodogram incl. Parseval on the bins strictly between 0 Hz and Nyquist, rpsd per component with smoothing on/off, diffuse field == "
                "sqrt(S(Pns+Pew)/S(Pvt)) of the retained windows, psd_preprocess against the documented step sequence with the spectral derivative and a "
                "flat response",
    trusted_base=["A-REAL", "numpy rfft/irfft, scipy tukey/butter/sosfiltfilt/detrend/freqs (external)", "PyVC engine + z3/cvc5 for the lemmas"],
    assumptions=["A-REAL", "A-FFT", "A-PARSEVAL (checked numerically)", "A-TUKEY", "A-FREQS",
                 "_rpds_single_component: equal window lengths and time steps, even FFT length (np.zeros(n/2) with odd n is a TypeError in the real code), "
                 "taper not identically zero; real(conj(z) z) modelled as an uninterpreted function of a real product"],
)
