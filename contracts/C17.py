"""C17 - power spectral densities are correctly normalised; diffuse-field HVSR agrees (processing.py, preprocessing.py, instrument_response.py).

Lemmas over the PSD spec (Welch averaging, amplitude scaling) are proved here; the function bodies use complex FFT output, in-place scaling of
arrays by np.mean of a tapered window and external rfft/irfft/freqs, and are evaluated natively (bounded/C17.py).
"""
import z3

from pyvc.contract import LemmaTask

# PSD spec for one bin: psd = 2 * sum_w P_w / (mw2 * N * fs * W), P_w = |X_w[k]|^2
P1, P2, P3, mw2, N, fs, k = z3.Reals("P1 P2 P3 mw2 N fs k")


def psd(ps):
    return 2 * sum(ps) / (mw2 * N * fs * len(ps))


pos = [mw2 > 0, N > 0, fs > 0]
TASKS = [
    LemmaTask("welch-average-2", pos, psd([P1, P2]) == (psd([P1]) + psd([P2])) / 2, "two windows: the density is the average of the single-window densities"),
    LemmaTask("welch-average-3", pos, psd([P1, P2, P3]) == (psd([P1]) + psd([P2]) + psd([P3])) / 3, "three windows"),
    LemmaTask("amplitude-scaling", pos, psd([k * k * P1, k * k * P2]) == k * k * psd([P1, P2]), "x -> k x scales |X|^2 and hence the density by k^2 (A-FFT-LIN)"),
]

META = dict(
    level="other",
    explanation="proved: Welch-averaging and amplitude-scaling lemmas over the PSD spec; bounded: _rpds_single_component against the Welch-normalised "
                "periodogram incl. Parseval on the bins strictly between 0 Hz and Nyquist, rpsd per component with smoothing on/off, diffuse field == "
                "sqrt(S(Pns+Pew)/S(Pvt)) of the retained windows, psd_preprocess against the documented step sequence with the spectral derivative and a "
                "flat response",
    trusted_base=["A-REAL", "numpy rfft/irfft, scipy tukey/butter/sosfiltfilt/detrend/freqs (external)", "PyVC engine + z3/cvc5 for the lemmas"],
    assumptions=["A-REAL", "A-FFT", "A-PARSEVAL (checked numerically)", "A-TUKEY", "A-FREQS"],
)
