"""C17 - power spectral densities are correctly normalised; diffuse-field HVSR agrees (processing.py, preprocessing.py, instrument_response.py).

Lemmas over the PSD spec (Welch averaging, amplitude scaling) are proved here; the function bodies use complex FFT output, in-place scaling of
arrays by np.mean of a tapered window and external rfft/irfft/freqs, and are evaluated natively (bounded/C17.py).
"""
import z3

from pyvc.contract import LemmaTask

# PSD spec for one bin: psd = 2 * sum_w P_w / (mw2 * N * fs * W), P_w = |X_w[k]|^2
P1, P2, P3, mw2, N, fs, k = z3.Reals("P1 P2 P3 mw2 N fs k")


def psd(ps):
    return 2 * sum(ps) / (mw2 * N * fs * len(ps))


pos = [mw2 > 0, N > 0, fs > 0]
TASKS = [
    LemmaTask("welch-average-2", pos, psd([P1, P2]) == (psd([P1]) + psd([P2])) / 2, "two windows: the density is the average of the single-window densities"),
    LemmaTask("welch-average-3", pos, psd([P1, P2, P3]) == (psd([P1]) + psd([P2]) + psd([P3])) / 3, "three windows"),
    LemmaTask("amplitude-scaling", pos, psd([k * k * P1, k * k * P2]) == k * k * psd([P1, P2]), "x -> k x scales |X|^2 and hence the density by k^2 (A-FFT-LIN)"),
]

# ---------------------------------------------------------------------------------------------------------------------
# _rpds_single_component under contract: accumulation over the windows and the Welch scaling chain.  window / rfft / conjugate / real are
# uninterpreted (the spectrum of a window is an opaque array of the window), the taper's mean square is the function's own local.
from pyvc.core import I, R, FuncV, ModV, DictV, StrV, Tup, ArrData, NONE, Undecided, real as real_
from pyvc.contract import Contract, FunctionTask, sym_obj
from pyvc import objects, npmodel as npm
from pyvc.objects import new_symlist

AR = z3.ArraySort(I, R)
L = z3.Int("n_windows")
TS = z3.Const("timeseries_ids", z3.ArraySort(I, I))
NFFT, NS0 = z3.Ints("n_fft n_samples")
DT0, WIDTH = z3.Reals("dt width")
TSAMP = objects.arr_term("TimeSeries", "amplitude")
TSLEN = objects.fld("TimeSeries", "amplitude_len", I)
TSDT = objects.fld("TimeSeries", "dt_in_seconds", R)
WIN = z3.Function("WIN", AR, I, R, AR)
RFFT = z3.Function("RFFT", AR, I, I, AR)
CONJ = z3.Function("CONJ", AR, AR)
REALP = z3.Function("REALP", R, R)
ONES = z3.Const("ones", AR)
PSUM = z3.Function("PSUM", I, I, R)          # PSUM(k, c) = sum over the first k windows of the power of bin c, each divided by its taper's mean square and its length
TMS = z3.Function("TAPER_MEAN_SQUARE", I, R, R)   # mean square of the taper of a given length and width (np.mean(window(ones)**2): opaque, positive)


def SPEC(tsid):
    return RFFT(WIN(TSAMP(tsid), TSLEN(tsid), WIDTH), TSLEN(tsid), NFFT)


def PW(tsid, c):
    return REALP(z3.Select(CONJ(SPEC(tsid)), c) * z3.Select(SPEC(tsid), c))


_k, _c = z3.Ints("k!p c!p")
AX_PSD = [z3.ForAll([_c], PSUM(0, _c) == 0, patterns=[PSUM(0, _c)]),
          z3.ForAll([_k, _c], z3.Implies(_k >= 0, PSUM(_k + 1, _c) == PSUM(_k, _c) + PW(z3.Select(TS, _k), _c) / TMS(TSLEN(z3.Select(TS, _k)), WIDTH)
                                         / z3.ToReal(TSLEN(z3.Select(TS, _k)))), patterns=[PSUM(_k + 1, _c)])]


def _m_from_timeseries(ex, st, args, kw, node):
    ts = args[0]
    amp = ex.alloc_arr(st, (TSLEN(ts.id),), TSAMP(ts.id), "real", "fresh", tag="copy")
    return ex.alloc_obj(st, "TimeSeries", {"amplitude": amp, "dt_in_seconds": TSDT(ts.id)}, "fresh")


def _m_ctor(ex, st, args, kw, node):
    a = ex.arr(st, kw["amplitude"] if "amplitude" in kw else args[0])
    return ex.alloc_obj(st, "TimeSeries", {"amplitude": ex.alloc_arr(st, a.shape, a.data, "real", "fresh", tag="copy"),
                                          "dt_in_seconds": kw["dt_in_seconds"] if "dt_in_seconds" in kw else args[1]}, "fresh")


def _m_window(ex, st, args, kw, node):
    ref = st.heap[args[0].oid].fields["amplitude"]
    d = st.heap[ref.sid]
    st.heap[ref.sid] = ArrData(d.shape, WIN(d.data, d.shape[0], z3.simplify(real_(args[2]))), d.elem, d.owner, d.view_of)
    return NONE


def _m_rfft(ex, st, args, kw, node):
    d = ex.arr(st, args[0])
    return ex.alloc_arr(st, (kw["n"] / 2 + 1,), RFFT(d.data, d.shape[0], kw["n"]), "real", "fresh", tag="rfft")


def _m_conj(ex, st, args, kw, node):
    d = ex.arr(st, args[0])
    return ex.alloc_arr(st, d.shape, CONJ(d.data), "real", "fresh", tag="conj")


def _m_real(ex, st, args, kw, node):
    return ex.map1(st, args[0], lambda x: REALP(x), "real")


def _m_ones_like(ex, st, args, kw, node):
    return ex.alloc_arr(st, ex.arr(st, args[0]).shape, ONES, "real", "fresh", tag="ones")


def _find_taper(t):
    """the application WIN(ONES, n, width) inside a term, if any"""
    if z3.is_app(t):
        if t.decl().eq(WIN) and t.arg(0).eq(ONES):
            return t
        for ch in t.children():
            r = _find_taper(ch)
            if r is not None:
                return r
    if z3.is_quantifier(t):
        return _find_taper(t.body())
    return None


def _m_mean(ex, st, args, kw, node):
    """np.mean(window.amplitude**2) of a tapered all-ones series: the taper's mean square for that length and width"""
    d = ex.arr(st, args[0])
    i0 = z3.Int("i!tms")
    e = z3.simplify(z3.Select(d.data, i0))
    w = _find_taper(e)
    if w is None or not z3.simplify(e - z3.Select(w, i0) * z3.Select(w, i0)).eq(z3.RealVal(0)):
        raise Undecided("np.mean of something other than the squared taper")
    r = TMS(w.arg(1), w.arg(2))
    st.pc.append(r > 0)          # assumption: the taper is not identically zero
    return r


_NP = ModV("np", dict(npm.NP.attrs, conjugate=FuncV(_m_conj, "np.conjugate"), real=FuncV(_m_real, "np.real"), ones_like=FuncV(_m_ones_like, "np.ones_like"),
                      mean=FuncV(_m_mean, "np.mean")))


def _rpds_inputs(ex, st):
    st.env["timeseries"] = new_symlist(ex, st, "TimeSeries", length=L, arr=TS, owner="param:timeseries", name="timeseries")
    st.env["settings"] = sym_obj(ex, st, "Settings", {"fft_settings": DictV({"n": NFFT}), "window_type_and_width": Tup((StrV("tukey"), WIDTH))}, owner="param:settings")
    st.env["L"], st.env["NFFT"], st.env["DT0"] = L, NFFT, DT0
    k = z3.Int("k!in")
    return [L >= 1, NFFT >= 2, NFFT % 2 == 0, DT0 > 0,
            z3.ForAll([k], z3.And(TSLEN(z3.Select(TS, k)) >= 1, TSDT(z3.Select(TS, k)) == DT0), patterns=[z3.Select(TS, k)])]


def _tseries_havoc(ex, st, v):
    amp = ex.alloc_arr(st, (ex.fresh("len", I),), ex.fresh("samples", AR), "real", "fresh", tag="copy")
    return ex.alloc_obj(st, "TimeSeries", {"amplitude": amp, "dt_in_seconds": ex.fresh("dt", R)}, "fresh")


RPDS = Contract(
    qual="hvsrpy.processing._rpds_single_component", params=["timeseries", "settings"], axioms=AX_PSD,
    ghost={"PSUM": PSUM}, make_inputs=_rpds_inputs, obj_havoc={"tseries": _tseries_havoc}, stable_shapes=("psd",),
    requires=[],
    ensures=["len(result) == NFFT / 2 + 1",
             "forall(c, 0, NFFT / 2 + 1, result[c] == ((PSUM(L, c) / (1 / DT0)) * 2) / L)"],
    loops={0: ["forall(c, 0, NFFT / 2 + 1, psd[c] == PSUM(_k0, c))",
               "_k0 == 0 or tseries.dt_in_seconds == DT0"]},
    modifies=[], notes="sum over the windows of |X_w[c]|^2 / (mean square of that window's taper x that window's number of samples), divided by the sampling rate "
                       "and the number of windows, times two (one-sided): the average of the single-window densities also when a final window is one sample "
                       "short; equal time steps and an even FFT length are preconditions")
RPDS.array_fields_as_terms = True
RPDS.loop_born = {"tseries": _tseries_havoc}
TASKS.append(FunctionTask(RPDS, module_env={"np": _NP, "rfft": FuncV(_m_rfft, "rfft"),
                                            "TimeSeries": FuncV(_m_ctor, "TimeSeries", attrs={"from_timeseries": FuncV(_m_from_timeseries, "from_timeseries")})},
                          registry={"TimeSeries.window": FuncV(_m_window, "TimeSeries.window")},
                          clauses=["Welch accumulation and scaling chain"]))
S_, W_, n_, f_, l_ = z3.Reals("S W n f l")
TASKS.append(LemmaTask("scaling-chain-closed-form", [W_ > 0, n_ > 0, f_ > 0, l_ > 0], (((S_ / W_ / n_) / f_) * 2) / l_ == 2 * S_ / (W_ * n_ * f_ * l_),
                       "one window's term, scaled by the chain of in-place scalings, equals 2 P / (mw2 N fs W) - the PSD spec of the lemmas above"))
# Welch for windows of any lengths: the density of W windows is the average of the W single-window densities (one-window case of the same postcondition)
_p1, _p2, _t1, _t2, _n1, _n2, _fs = z3.Reals("p1 p2 t1 t2 n1 n2 fs")
TASKS.append(LemmaTask("welch-average-unequal-lengths", [_t1 > 0, _t2 > 0, _n1 > 0, _n2 > 0, _fs > 0],
                       (((0 + _p1 / _t1 / _n1 + _p2 / _t2 / _n2) / _fs) * 2) / 2 == ((((0 + _p1 / _t1 / _n1) / _fs) * 2) / 1 + (((0 + _p2 / _t2 / _n2) / _fs) * 2) / 1) / 2,
                       "two windows of different lengths: the postcondition's value is the average of the two one-window values"))

# ---------------------------------------------------------------------------------------------------------------------
# psd_preprocess under contract: the documented chain per recording, in order - (orient,) zero-phase filter; if a response is removed or the record is
# differentiated: constant detrend and taper; response removal on each of ns / ew / vt followed by the filter again; spectral derivative on each of ns / ew / vt;
# split; detrend each window - with the published FFT length.  Same technique as hvsr_preprocess (C10): every object has one abstract content in a ghost
# map, every stage is an uninterpreted function of the content it is applied to, so any other order, a skipped stage or a component mix-up is a different term.
import contracts.C10 as _P
from pyvc.core import ClsV, StrV, NONE, Tup, lit, real as _real17
from pyvc.objects import SObj

P_ORIENT, P_BUTTER, P_WINDOWC, P_NW3, P_W3, P_NOFF = _P.ORIENT, _P.BUTTER, _P.WINDOWC, _P.NW3, _P.W3, _P.NOFF
DETR = z3.Function("DETREND_T", I, I, I)                 # (content, type code)
TAPER = z3.Function("TAPER", I, R, I)                    # (content, width)
GETC = z3.Function("COMPONENT", I, I, I)                 # (recording content, component code) -> time-series content
SETC = z3.Function("WITH_COMPONENT", I, I, I, I)         # (recording content, component code, time-series content) -> recording content
RESPT = z3.Function("REMOVE_RESPONSE", I, I, I, I)       # (time-series content, transfer function, n_fft)
DIFFT = z3.Function("DIFFERENTIATE", I, I, I)            # (time-series content, n_fft)
ITF = z3.Int("instrument_transfer_function")
PWID = z3.Real("taper_width")
_CC = {"ns": 0, "ew": 1, "vt": 2}
_DT = {"constant": 1, "linear": 0}


def _each_component(c, f):
    for k in (0, 1, 2):
        c = SETC(c, z3.IntVal(k), f(GETC(c, z3.IntVal(k))))
    return c


def PCP(i, oriented, resp, diff):
    c = z3.Select(_P.C0, z3.Select(_P.RIDS, i))
    c = P_BUTTER(P_ORIENT(c, _P.DEG0) if oriented else c, _P.FLO, _P.FHI)
    if resp or diff:
        c = TAPER(DETR(c, z3.IntVal(_DT["constant"])), PWID)
    if resp:
        c = P_BUTTER(_each_component(c, lambda t: RESPT(t, ITF, NFFT)), _P.FLO, _P.FHI)
    if diff:
        c = _each_component(c, lambda t: DIFFT(t, NFFT))
    return c


class _TsC:
    """a time series known by its content only (what getattr(recording, component) and the per-component stages hand around)"""
    def __init__(self, content):
        self.content = content


def _m_getattr17(ex, st, args, kw, node):
    rec, name = args
    return _TsC(GETC(z3.Select(st.env["__C"], rec.id), z3.IntVal(_CC[name.s])))


def _m_setattr17(ex, st, args, kw, node):
    rec, name, ts = args
    st.env["__C"] = z3.Store(st.env["__C"], rec.id, SETC(z3.Select(st.env["__C"], rec.id), z3.IntVal(_CC[name.s]), ts.content))
    return NONE


def _m_resp17(ex, st, args, kw, node):
    ts, itf, fft = args
    return _TsC(RESPT(ts.content, lit(itf), lit(fft.items["n"])))


def _m_diff17(ex, st, args, kw, node):
    ts, fft = args
    return _TsC(DIFFT(ts.content, lit(fft.items["n"])))


def _m_detr17(ex, st, args, kw, node):
    _P._upd(st, args[0].id, DETR(z3.Select(st.env["__C"], args[0].id), z3.IntVal(_DT[kw["type"].s])))
    return NONE


def _m_taper17(ex, st, args, kw, node):
    _P._upd(st, args[0].id, TAPER(z3.Select(st.env["__C"], args[0].id), _real17(args[2])))
    return NONE


def _m_prepare_fft17(ex, st, args, kw, node):
    st.heap[args[1].oid].fields["fft_settings"] = DictV({"n": NFFT})
    return NONE


def _psdpre_inputs(oriented, resp, diff):
    def mk(ex, st):
        facts = _P._pre_inputs(oriented)(ex, st)
        o = st.heap[st.env["settings"].oid].fields
        o.update({"instrument_transfer_function": ITF if resp else NONE, "differentiate": z3.BoolVal(diff), "window_type_and_width": Tup((StrV("tukey"), PWID)),
                  "fft_settings": NONE})
        return facts + [NFFT >= 2]
    return mk


def _psdpre_axioms(oriented, resp, diff):
    r, j, i, k = z3.Ints("r!w j!w i!w k!w")
    nw = lambda q: P_NW3(PCP(q, oriented, resp, diff), _P.LWIN)
    return [
        z3.ForAll([r, j], z3.And(_P.WREC(P_W3(r, j)) == r, _P.WPOS(P_W3(r, j)) == j, _P.ISWIN(P_W3(r, j))), patterns=[P_W3(r, j)]),
        z3.ForAll([i], z3.Not(_P.ISWIN(z3.Select(_P.RIDS, i))), patterns=[z3.Select(_P.RIDS, i)]),
        z3.ForAll([r, z3.Real("l!w")], P_NW3(r, z3.Real("l!w")) >= 0, patterns=[P_NW3(r, z3.Real("l!w"))]),
        P_NOFF(0) == 0,
        z3.ForAll([k], z3.Implies(k >= 0, P_NOFF(k + 1) == P_NOFF(k) + nw(k)), patterns=[P_NOFF(k + 1)]),
        z3.ForAll([i, k], z3.Implies(z3.And(0 <= i, i < k), P_NOFF(i) + nw(i) <= P_NOFF(k)), patterns=[z3.MultiPattern(P_NOFF(i), P_NOFF(k))]),
        z3.ForAll([i, k], z3.Implies(z3.And(0 <= i, i <= k), P_NOFF(i) <= P_NOFF(k)), patterns=[z3.MultiPattern(P_NOFF(i), P_NOFF(k))]),
    ]


def _psdpre_contract(oriented, resp, diff):
    pc = lambda i: PCP(i, oriented, resp, diff)
    lin = z3.IntVal(_DT["linear"])
    gh = {"C": FuncV(lambda ex, st, a, k, n_: z3.Select(st.env["__C"], a[0] if z3.is_expr(a[0]) else a[0].id), "C"), "C0": lambda r: z3.Select(_P.C0, r),
          "RID": lambda i: z3.Select(_P.RIDS, i), "W3": P_W3, "NOFF": P_NOFF, "NW": lambda i: P_NW3(pc(i), _P.LWIN), "PC": pc,
          "FINAL": lambda i, j: DETR(P_WINDOWC(pc(i), _P.LWIN, j), lin), "WINDOWC": lambda c, j: P_WINDOWC(c, _P.LWIN, j), "DETL": lambda c: DETR(c, lin),
          "same_obj": FuncV(lambda ex, st, a, k, n_: a[0].id == a[1], "same_obj"), "LREC": _P.LREC, "NFFT": NFFT}
    done = "forall(i, 0, {k}, forall(j, 0, NW(i), same_obj(preprocessed_records[NOFF(i) + j], W3(RID(i), j)) and C(W3(RID(i), j)) == FINAL(i, j)))"
    loops = {0: ["len(preprocessed_records) == NOFF(_k0)", done.format(k="_k0"), "forall(i, _k0, LREC, C(RID(i)) == C0(RID(i)))"]}
    inner = ["len(preprocessed_records) == NOFF(_k0)", done.format(k="_k0"), "forall(i, _k0 + 1, LREC, C(RID(i)) == C0(RID(i)))",
             "forall(j, 0, _k, C(W3(RID(_k0), j)) == DETL(WINDOWC(PC(_k0), j)))", "forall(j, _k, NW(_k0), C(W3(RID(_k0), j)) == WINDOWC(PC(_k0), j))"]
    # loop ordinals in source order: 0 records; 1 response components; 2 derivative components; 3 windows (the component loops run over a literal list: unrolled)
    loops[3] = inner
    return Contract(qual="hvsrpy.preprocessing.psd_preprocess", params=["records", "settings"], ghost=gh, axioms=_psdpre_axioms(oriented, resp, diff),
                    make_inputs=_psdpre_inputs(oriented, resp, diff), sym_lists={"preprocessed_records": "SeismicRecording3C"},
                    ensures=["len(result) == NOFF(LREC)",
                             "forall(i, 0, LREC, forall(j, 0, NW(i), same_obj(result[NOFF(i) + j], W3(RID(i), j)) and C(W3(RID(i), j)) == FINAL(i, j)))",
                             "settings.fft_settings['n'] == NFFT"],
                    loops=loops, modifies=["param:records", "param:settings"],
                    notes="every recording: (orient,) filter; [constant detrend, taper]; [response removal on ns, ew, vt, filter]; [derivative on ns, ew, vt]; split; "
                          "detrend each window; windows of all recordings in order; FFT length as published by prepare_fft_settings")


for _or, _rs, _df in ((True, False, False), (True, True, False), (True, False, True), (True, True, True), (False, True, True)):
    _c = _psdpre_contract(_or, _rs, _df)
    _c.ghost_state = ("__C",)
    TASKS.append(FunctionTask(_c, registry={"SeismicRecording3C.orient_sensor_to": FuncV(_P._m_orient, "orient_sensor_to"),
                                            "SeismicRecording3C.butterworth_filter": FuncV(_P._m_butter, "butterworth_filter"),
                                            "SeismicRecording3C.split": FuncV(_P._m_split3, "split"), "SeismicRecording3C.detrend": FuncV(_m_detr17, "detrend"),
                                            "SeismicRecording3C.window": FuncV(_m_taper17, "window")},
                              module_env={"SeismicRecording3C": ClsV("SeismicRecording3C"), "prepare_fft_settings": FuncV(_m_prepare_fft17, "prepare_fft_settings"),
                                          "getattr": FuncV(_m_getattr17, "getattr"), "setattr": FuncV(_m_setattr17, "setattr"),
                                          "_remove_instrument_response": FuncV(_m_resp17, "_remove_instrument_response"), "_differentiate": FuncV(_m_diff17, "_differentiate")},
                              label=f"hvsrpy.preprocessing.psd_preprocess[orient={'yes' if _or else 'None'},response={'yes' if _rs else 'None'},differentiate={_df}]",
                              clauses=["PSD preprocessing applies the documented stages in order, component by component"]))

# diffuse_field_hvsr_processing and rpsd: which recordings / components / FFT length / operator arguments / formula give the result
import contracts.drv_psd as _DRVPSD
TASKS += _DRVPSD.TASKS

META = dict(
    level="other",
    explanation="proved: _rpds_single_component's accumulation over the windows and its scaling chain (window / rfft / conjugate / real opaque, taper mean "
                "square = the function's local), closed form of the chain, Welch-averaging and amplitude-scaling lemmas over the PSD spec; bounded: _rpds_single_component against the Welch-normalised "
                "periodogram incl. Parseval on the bins strictly between 0 Hz and Nyquist, rpsd per component with smoothing on/off, diffuse field == "
                "sqrt(S(Pns+Pew)/S(Pvt)) of the retained windows, psd_preprocess against the documented step sequence with the spectral derivative and a "
                "flat response",
    trusted_base=["A-REAL", "numpy rfft/irfft, scipy tukey/butter/sosfiltfilt/detrend/freqs (external)", "PyVC engine + z3/cvc5 for the lemmas"],
    assumptions=["A-REAL", "A-FFT", "A-PARSEVAL (checked numerically)", "A-TUKEY", "A-FREQS",
                 "_rpds_single_component: equal window lengths and time steps, even FFT length (np.zeros(n/2) with odd n is a TypeError in the real code), "
                 "taper not identically zero; real(conj(z) z) modelled as an uninterpreted function of a real product"],
)

# Psd objects (what rpsd returns per component): validation and constructor
import contracts.ctor_hvsr as _CTOR
TASKS += _CTOR.PSD_TASKS

# instrument_response.py (differentiation and response removal of psd_preprocess): FFT-length and sample routing
import contracts.instr as _INSTR
TASKS += _INSTR.TASKS
