"""instrument_response.py: _domain_transform, _differentiate, _integrate, _remove_instrument_response under contract (used by psd_preprocess, C17).

Spectra and transfer functions are opaque complex arrays (pyvc.core.CplxV, A-COMPLEX).  What is proved is the routing of the FFT length and of the samples:
the forward transform is that of the series' own samples with the published length n (the series' length when none is published), the spectrum is multiplied
by *one* transfer function, the inverse transform is told the same n, the result is cut to the series' length and keeps its time step.  The formula of the
transfer function (2 pi f j, its reciprocal with the 0 Hz entry cleared, the reciprocal of the instrument response where it is non-zero) is evaluated
natively (bounded clause of C17): no equality between complex expressions is claimed here, so a respelling of that arithmetic cannot be refuted.
"""
import z3

from pyvc.core import I, R, B, ARef, ORef, FuncV, ModV, DictV, StrV, Tup, NONE, CplxV, COP, Undecided, lit, real as real_
from pyvc.contract import Contract, FunctionTask, sym_obj, sym_arr1
from pyvc import npmodel as npm

AR = z3.ArraySort(I, R)
NS, NFFT = z3.Ints("n_samples n_fft")
X = z3.Const("series_samples", AR)
DT = z3.Real("dt_in_seconds")
RFFT = z3.Function("RFFT", AR, I, I, I)                 # (samples, their number, transform length) -> spectrum
IRFFT = z3.Function("IRFFT", I, I, AR)                  # (spectrum, length the inverse is told; -1: not told) -> samples
FRQ = z3.Function("RFFTFREQ", I, R, AR)
HRESP = z3.Function("instrument_response_at", I, AR, I, I)     # (transfer function object, frequencies, their number) -> complex response


def _m_rfft(ex, st, args, kw, node):
    d = ex.arr(st, args[0])
    n = lit(kw["n"]) if "n" in kw else (lit(args[1]) if len(args) > 1 else d.shape[0])
    if set(kw) - {"n"}:
        raise Undecided("np.fft.rfft with other options than n")
    return CplxV(RFFT(d.data, d.shape[0], n))


def _m_irfft(ex, st, args, kw, node):
    if not isinstance(args[0], CplxV):
        raise Undecided("np.fft.irfft of something other than a spectrum")
    told = len(args) > 1 or "n" in kw
    n = lit(args[1]) if len(args) > 1 else (lit(kw["n"]) if "n" in kw else z3.IntVal(-1))
    length = n if told else ex.fresh("irfft_length", I)       # not told: numpy infers 2 (m - 1) from the spectrum - a number this model does not know
    if not told:
        st.pc.append(length >= 0)
    return ex.alloc_arr(st, (length,), IRFFT(args[0].term, n), "real", "fresh", tag="irfft")


def _m_rfftfreq(ex, st, args, kw, node):
    n = lit(args[0])
    d = real_(kw.get("d", args[1] if len(args) > 1 else 1))
    return ex.alloc_arr(st, (n / 2 + 1,), FRQ(n, d), "real", "fresh", tag="rfftfreq")


def _m_ts(ex, st, args, kw, node):
    d = ex.arr(st, args[0])
    return ex.alloc_obj(st, "TimeSeries", {"amplitude": ex.alloc_arr(st, d.shape, d.data, "real", "fresh", tag="samples"), "dt_in_seconds": kw["dt_in_seconds"]}, "fresh")


def _m_abs(ex, st, args, kw, node):
    if isinstance(args[0], CplxV):
        n = ex.fresh("n_response", I)
        st.pc.append(n >= 0)
        return ex.alloc_arr(st, (n,), z3.Function("complex_abs", I, AR)(args[0].term), "real", "fresh", tag="abs")
    return npm.NP.attrs["abs"].fn(ex, st, args, kw, node)


_NP = ModV("np", dict(npm.NP.attrs, fft=ModV("np.fft", {"rfft": FuncV(_m_rfft, "np.fft.rfft"), "irfft": FuncV(_m_irfft, "np.fft.irfft"), "rfftfreq": FuncV(_m_rfftfreq, "np.fft.rfftfreq")}),
                 abs=FuncV(_m_abs, "np.abs"), empty_like=FuncV(lambda ex, st, a, k, n_: CplxV(ex.fresh("empty_complex", I)) if isinstance(a[0], CplxV) else npm.NP.attrs["empty_like"].fn(ex, st, a, k, n_),
                                                               "np.empty_like")))
ENV = {"np": _NP, "TimeSeries": FuncV(_m_ts, "TimeSeries"), "complex": FuncV(lambda ex, st, a, k, n_: CplxV(z3.Function("complex_constant", R, R, I)(real_(a[0]), real_(a[1]))), "complex")}


def _inputs(kind, published):
    def mk(ex, st):
        amp = sym_arr1(ex, st, "series_samples", NS, owner="param:timeseries.amplitude")
        st.env["timeseries"] = sym_obj(ex, st, "TimeSeries", {"amplitude": amp, "dt_in_seconds": DT}, owner="param:timeseries")
        st.env["fft_settings"] = DictV({"n": NFFT}) if published else DictV({})
        if kind is not None:
            st.env["transform_type"] = StrV(kind)
        st.env["instrument_transfer_function"] = sym_obj(ex, st, "InstrumentTransferFunction", {}, owner="param:instrument_transfer_function")
        return [NS >= 1, DT > 0] + ([NFFT >= NS] if published else [])
    return mk


def _routed(ex, st, a, k, n_):
    """result.amplitude is the first NS samples of IRFFT(spectrum of the series' own samples with length n  x  one transfer function, told n)"""
    res = a[0]
    n = lit(a[1])
    if not isinstance(res, ORef):
        return z3.BoolVal(False)
    d = ex.arr(st, st.heap[res.oid].fields["amplitude"])
    tf, j = z3.Int("tf!q"), z3.Int("j!q")
    spec = RFFT(X, NS, n)
    def same(prod):
        return z3.ForAll([j], z3.Implies(z3.And(j >= 0, j < NS), z3.Select(d.data, j) == z3.Select(IRFFT(prod, n), j)))
    # (multiplication in either order: the product of complex numbers does not depend on it)
    return z3.And(d.shape[0] == NS, z3.Exists([tf], z3.Or(same(COP(z3.IntVal(3), spec, tf)), same(COP(z3.IntVal(3), tf, spec)))))


GHOST = {"routed": FuncV(_routed, "routed"), "NS": NS, "NFFT": NFFT, "DT": DT}
TASKS = []
for _pub in (True, False):
    _n = "NFFT" if _pub else "NS"
    for _kind in ("derivative", "integral"):
        c = Contract(qual="hvsrpy.instrument_response._domain_transform", params=["transform_type", "timeseries", "fft_settings"], ghost=GHOST, make_inputs=_inputs(_kind, _pub),
                     ensures=[f"routed(result, {_n})", "result.dt_in_seconds == DT", "not (result is timeseries) and not (result.amplitude is timeseries.amplitude)"], modifies=[],
                     notes="forward transform of the series' own samples with the published length (its own length when none is published), one multiplication by a transfer "
                           "function, inverse transform told the same length, cut to the series' length, same time step, a new series")
        TASKS.append(FunctionTask(c, module_env=ENV, label=f"hvsrpy.instrument_response._domain_transform[{_kind},n {'published' if _pub else 'absent'}]",
                                  clauses=["spectral derivative / integral: forward and inverse transform of one length, result cut to the window"]))
c = Contract(qual="hvsrpy.instrument_response._domain_transform", params=["transform_type", "timeseries", "fft_settings"], make_inputs=_inputs("laplacian", True),
             raises={"NotImplementedError": "True"}, ensures=[], modifies=[])
TASKS.append(FunctionTask(c, module_env=ENV, label="hvsrpy.instrument_response._domain_transform[another transform: refused]", clauses=["an unknown transform is refused"]))

# _differentiate / _integrate: the transform of that name, the caller's series and settings
DOM = z3.Function("DOMAIN_TRANSFORM", I, I, I, I)


def _m_domain(ex, st, args, kw, node):
    if args or set(kw) != {"transform_type", "timeseries", "fft_settings"} or type(kw["transform_type"]) is not StrV:
        raise Undecided("_domain_transform is called in another way than by its three keywords")
    code = {"derivative": 1, "integral": 2}.get(kw["transform_type"].s, 0)
    st.env["__dom"] = st.env["__dom"] + [(code, kw["timeseries"], kw["fft_settings"])]
    return z3.IntVal(code)


def _wrap_inputs(ex, st):
    _inputs(None, True)(ex, st)
    st.env["__dom"] = []
    return []


for _fn, _code in (("_differentiate", 1), ("_integrate", 2)):
    def _ok(ex, st, a, k, n_, _code=_code):
        d = st.env["__dom"]
        return z3.BoolVal(len(d) == 1 and d[0][0] == _code and d[0][1] is st.env["timeseries"] and d[0][2] is st.env["fft_settings"])
    c = Contract(qual=f"hvsrpy.instrument_response.{_fn}", params=["timeseries", "fft_settings"], ghost={"one_call": FuncV(_ok, "one_call")}, make_inputs=_wrap_inputs,
                 ensures=["one_call()", f"result == {_code}"], modifies=[], notes="the transform of that name on the caller's series with the caller's settings, result handed back")
    c.ghost_state = ("__dom",)
    TASKS.append(FunctionTask(c, module_env={"_domain_transform": FuncV(_m_domain, "_domain_transform")}, label=f"hvsrpy.instrument_response.{_fn}",
                              clauses=["differentiate means the derivative, integrate the integral, of the series given"]))

# _remove_instrument_response: the same routing, the transfer function being built from the instrument's response at the FFT frequencies
for _pub in (True, False):
    _n = "NFFT" if _pub else "NS"
    c = Contract(qual="hvsrpy.instrument_response._remove_instrument_response", params=["timeseries", "instrument_transfer_function", "fft_settings"], ghost=GHOST,
                 make_inputs=_inputs(None, _pub),
                 ensures=[f"routed(result, {_n})", "result.dt_in_seconds == DT", "not (result is timeseries) and not (result.amplitude is timeseries.amplitude)"], modifies=[],
                 notes="as _domain_transform, the multiplier built from the response of the instrument given at the frequencies of the same FFT length")
    TASKS.append(FunctionTask(c, module_env=ENV, registry={"InstrumentTransferFunction._h": FuncV(lambda ex, st, a, k, n_: CplxV(HRESP(z3.IntVal(1), ex.arr(st, a[1]).data, ex.arr(st, a[1]).shape[0])),
                                                                                                 "InstrumentTransferFunction._h")},
                              label=f"hvsrpy.instrument_response._remove_instrument_response[n {'published' if _pub else 'absent'}]",
                              clauses=["response removal: forward and inverse transform of one length, result cut to the window"]))
