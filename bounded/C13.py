"""C13 native harness: time-domain rejection keeps exactly the windows that satisfy the criterion."""
import numpy as np

from bounded.common import close, run
from bounded import refproc as rp

COMPS = [("ns", "ew", "vt"), ("vt",), ("ns", "ew"), ("ew",), ("vt", "ns")]


def envelope_window(rng, N, dt, kind):
    """window with a controlled STA/LTA profile: kind 'quiet' (flat), 'spike' (burst), 'dropout' (dead section), 'random'"""
    x = [rng.normal(0, 1, N) for _ in range(3)]
    if kind == "spike":
        c = int(rng.integers(0, 3))
        i = int(rng.integers(N // 3, N - N // 6))
        x[c][i:i + N // 10] *= rng.uniform(8, 30)
    elif kind == "dropout":
        c = int(rng.integers(0, 3))
        i = int(rng.integers(N // 3, N - N // 6))
        x[c][i:i + N // 8] *= 0.001
    elif kind == "random":
        c = int(rng.integers(0, 3))
        x[c] *= np.exp(rng.normal(0, 0.7, N).cumsum() * 0.05)
    return x


def sta_lta_spec(x, dt, sta_s, lta_s):
    """ratios for every admissible number of samples per STA (floor of sta/dt, rounding tolerant); returns list of (max, min) or 'error'"""
    out = []
    q = sta_s / dt
    cands = {int(np.floor(q + 1e-9)), int(np.floor(q - 1e-9))}
    ql = lta_s / dt
    candl = {int(np.floor(ql + 1e-9)), int(np.floor(ql - 1e-9))}
    for p in cands:
        for pl in candl:
            if p < 1 or p > len(x) or pl > len(x):
                out.append("error")
                continue
            s = len(x) // p
            short = np.abs(x[:p * s])
            sta = short.reshape(s, p).mean(axis=1)
            lta = short[:pl].mean()
            out.append((float((sta / lta).max()), float((sta / lta).min())))
    return out


def sta_lta_clause(cl, rng, n, replay):
    import hvsrpy
    for j in range(n):
        dt = float(rng.choice([0.01, 0.005, 1 / 75, 0.02]))
        N = int(rng.integers(400, 900))
        L = int(rng.integers(2, 7))
        kinds = [str(rng.choice(["quiet", "quiet", "spike", "dropout", "random"])) for _ in range(L)]
        # the decision for a window depends on that window only: windows need not have the same length (whole recordings of different duration);
        # in a quarter of the cases the first window is the shortest and bursts / drop-outs sit late in the longer ones
        Ns = [N] * L
        if j % 4 == 1 and L >= 2:
            Ns = [N // 2] + [int(rng.integers(N, N + N // 2)) for _ in range(L - 1)]
        raws = [envelope_window(rng, Ni, dt, k) for Ni, k in zip(Ns, kinds)]
        sta = float(rng.choice([0.2, 0.5, 1.0]))
        lta = float(rng.choice([2.0, 3.0, min(Ns) * dt * 0.9]))
        mn, mx = float(rng.choice([0.1, 0.2, 0.5, 0.0])), float(rng.choice([2.0, 2.5, 4.0]))       # (a lower limit of 0: no lower limit)
        comps = COMPS[j % len(COMPS)]
        scale = float(rng.choice([1.0, 1e-6, 1e-13, 1e5]))
        recs = [rp.mk_record(scale * r[0], scale * r[1], scale * r[2], dt) for r in raws]
        snaps = [rp.snapshot_record(r) for r in recs]
        attach = j % 3
        hv = None
        f = np.geomspace(0.3, 20, 25)
        def bump():
            A = np.array([1 + 3 * np.exp(-(np.log(f / rng.uniform(0.8, 5)) / 0.3) ** 2) for _ in range(L)])
            if j % 2 == 1:
                A[int(rng.integers(0, L))] = np.linspace(4, 1, len(f))        # a window whose curve has no peak: its masks follow the selection all the same
            return A
        if attach == 1:
            hv = hvsrpy.HvsrTraditional(f, bump())
            hv.valid_window_boolean_mask[0] = False       # pre-existing state must be overwritten by the selection
        elif attach == 2:
            hv = hvsrpy.HvsrAzimuthal([hvsrpy.HvsrTraditional(f, bump()) for _ in range(2)], [0., 90.])
            hv.hvsrs[1].valid_peak_boolean_mask[-1] = False
        # decision per record: for every admissible number of samples per STA / LTA (whole samples, or one fewer when the quotient is
        # within rounding of an integer) the window is clearly kept or clearly rejected; otherwise the case is set aside
        status = []
        for r in raws:
            per_cand = None
            for c in comps:
                x = r[("ns", "ew", "vt").index(c)]
                res = sta_lta_spec(x, dt, sta, lta)
                dec = []
                for rr in res:
                    if rr == "error":
                        dec.append("error")
                        continue
                    hi, lo = rr
                    if hi > mx * (1 + 1e-9) or lo < mn * (1 - 1e-9):
                        dec.append("reject")
                    elif hi > mx * (1 - 1e-9) or lo < mn * (1 + 1e-9):
                        dec.append("razor")
                    else:
                        dec.append("keep")
                per_cand = dec if per_cand is None else [("error" if "error" in (a, b) else "razor" if "razor" in (a, b) else "reject" if "reject" in (a, b) else "keep")
                                                         for a, b in zip(per_cand, dec)]
            st = per_cand[0] if len(set(per_cand)) == 1 else "razor"
            status.append(st)
        if "error" in status or "razor" in status:
            cl.skipped += 1
            continue
        # "records: iterable": a list, a tuple, or something that can be walked through once only (an iterator, a generator)
        given = [recs, tuple(recs), iter(recs), (r for r in recs)][j % 4]
        try:
            out = hvsrpy.sta_lta_window_rejection(given, sta_seconds=sta, lta_seconds=lta, min_sta_lta_ratio=mn, max_sta_lta_ratio=mx, components=comps, hvsr=hv)
        except Exception as ex:
            cl.fail("hvsrpy.window_rejection.sta_lta_window_rejection", f"{type(ex).__name__}: {ex}", signature="stalta:exception")
            return
        want = [s == "keep" for s in status]
        cl.case((j, tuple(kinds), sta, lta, mn, mx, comps, scale), nontrivial=not all(want))
        kept = [r for r, w in zip(recs, want) if w]
        if len(out) != len(kept) or any(a is not b for a, b in zip(out, kept)):
            cl.fail("hvsrpy.window_rejection.sta_lta_window_rejection",
                    f"returned windows are not exactly the windows satisfying the criterion, in order, as the same objects (expected keep={want}, amplitude scale {scale})",
                    signature="stalta:selection", kinds=kinds, sta=sta, lta=lta, limits=(mn, mx), components=comps, scale=scale)
            return
        if any(not rp.same_snapshot(s, rp.snapshot_record(r)) for s, r in zip(snaps, recs)):
            cl.fail("hvsrpy.window_rejection.sta_lta_window_rejection", "records modified", signature="stalta:frame")
            return
        targets = [] if hv is None else ([hv] if attach == 1 else hv.hvsrs)
        for t in targets:
            if not (np.array_equal(t.valid_window_boolean_mask, want) and np.array_equal(t.valid_peak_boolean_mask, want)):
                cl.fail("hvsrpy.window_rejection.sta_lta_window_rejection", "accept masks of the attached HVSR object differ from the selection", signature="stalta:masks",
                        expected=want, valid_window=t.valid_window_boolean_mask, valid_peak=t.valid_peak_boolean_mask)
                return
        # the decision is about the samples the windows hold *now*: after a kept and a rejected window of equal length have exchanged their samples in place, the same call
        # keeps the other one
        if hv is None and len(set(Ns)) == 1 and any(want) and not all(want):
            a, b_ = want.index(True), want.index(False)
            for c in ("ns", "ew", "vt"):
                xa, xb = getattr(recs[a], c).amplitude, getattr(recs[b_], c).amplitude
                tmp = xa.copy()
                xa[:] = xb
                xb[:] = tmp
            again = hvsrpy.sta_lta_window_rejection(recs, sta_seconds=sta, lta_seconds=lta, min_sta_lta_ratio=mn, max_sta_lta_ratio=mx, components=comps)
            want2 = list(want)
            want2[a], want2[b_] = want[b_], want[a]
            kept2 = [r for r, w in zip(recs, want2) if w]
            cl.case((j, "after exchanging the samples of windows", a, b_))
            if len(again) != len(kept2) or any(x is not y for x, y in zip(again, kept2)):
                cl.fail("hvsrpy.window_rejection.sta_lta_window_rejection", f"after windows {a} (kept) and {b_} (rejected) exchanged their samples in place, the same call did not "
                        f"keep exactly the windows that satisfy the criterion now (expected keep={want2})", signature="stalta:after-in-place-edit")
                return
            for c in ("ns", "ew", "vt"):            # put the samples back for the checks below
                xa, xb = getattr(recs[a], c).amplitude, getattr(recs[b_], c).amplitude
                tmp = xa.copy()
                xa[:] = xb
                xb[:] = tmp
        # several components == conjunction of single components; widening the limits only turns reject into keep
        if len(comps) > 1 and hv is None:
            single = [set(map(id, hvsrpy.sta_lta_window_rejection(recs, sta_seconds=sta, lta_seconds=lta, min_sta_lta_ratio=mn, max_sta_lta_ratio=mx, components=(c,)))) for c in comps]
            if set(map(id, out)) != set.intersection(*single):
                cl.fail("hvsrpy.window_rejection.sta_lta_window_rejection", "several components != conjunction of each", signature="stalta:conjunction")
                return
            wide = hvsrpy.sta_lta_window_rejection(recs, sta_seconds=sta, lta_seconds=lta, min_sta_lta_ratio=mn / 2, max_sta_lta_ratio=mx * 2, components=comps)
            if not set(map(id, out)) <= set(map(id, wide)):
                cl.fail("hvsrpy.window_rejection.sta_lta_window_rejection", "widening the limits rejected a window that was kept", signature="stalta:monotone")
                return


def maxval_clause(cl, rng, n, replay):
    import hvsrpy
    for j in range(n):
        dt = 0.01
        L = int(rng.integers(1, 8))
        N = int(rng.integers(20, 100))
        raws = [[rng.normal(0, rng.uniform(0.2, 3), N) for _ in range(3)] for _ in range(L)]
        comps = COMPS[j % len(COMPS)]
        normalized = bool(j % 2)
        recs = [rp.mk_record(*r, dt) for r in raws]
        M = np.array([max(np.abs(r[("ns", "ew", "vt").index(c)]).max() for c in comps) for r in raws])
        Mn = M / M.max() if normalized else M
        thr = float(rng.choice([0.5, 0.9, 1.0, float(np.sort(Mn)[len(Mn) // 2]) * 1.0000001, 2.5, 100.0]))
        if np.any(np.abs(Mn - thr) < 1e-9 * max(1, thr)) and thr not in (1.0,):
            cl.skipped += 1
            continue
        want = (Mn < thr).tolist()
        f = np.geomspace(0.3, 20, 25)
        def mk():
            A = np.array([1 + 3 * np.exp(-(np.log(f / rng.uniform(0.8, 5)) / 0.3) ** 2) for _ in range(L)])
            if j % 4 >= 2:
                A[int(rng.integers(0, L))] = np.linspace(4, 1, len(f))        # a window whose curve has no peak
            return hvsrpy.HvsrTraditional(f, A)
        hist = []
        hv = [None, mk(), hvsrpy.HvsrAzimuthal([mk(), mk()], [10., 100.])][j % 3]
        # sequence of calls on the same HVSR object: the masks must equal the *last* selection
        if hv is not None:
            pre = float(np.sort(Mn)[0]) * 1.0000001 if len(Mn) > 1 else 1e9
            hvsrpy.maximum_value_window_rejection(recs, maximum_value_threshold=pre, normalized=normalized, components=comps, hvsr=hv)
            hist.append(pre)
        out = hvsrpy.maximum_value_window_rejection(recs, maximum_value_threshold=thr, normalized=normalized, components=comps, hvsr=hv)
        cl.case((j, L, comps, normalized, thr), nontrivial=not all(want))
        kept = [r for r, w in zip(recs, want) if w]
        if len(out) != len(kept) or any(a is not b for a, b in zip(out, kept)):
            cl.fail("hvsrpy.window_rejection.maximum_value_window_rejection", f"kept windows differ from 'largest absolute sample < threshold' (normalized={normalized})",
                    signature="maxval:selection", threshold=thr, values=Mn, expected=want)
            return
        targets = [] if hv is None else ([hv] if isinstance(hv, hvsrpy.HvsrTraditional) else hv.hvsrs)
        for t in targets:
            if not (np.array_equal(t.valid_window_boolean_mask, want) and np.array_equal(t.valid_peak_boolean_mask, want)):
                cl.fail("hvsrpy.window_rejection.maximum_value_window_rejection", f"masks of the attached object differ from the selection after the call sequence {hist + [thr]}",
                        signature="maxval:masks", expected=want, valid_window=t.valid_window_boolean_mask)
                return


CLAUSES = [
    ("bounded:STA/LTA keeps exactly the windows whose ratios are inside the limits (identity, order, masks, scale invariance, conjunction, monotonicity)", "bounded",
     "2-6 windows x 400-900 samples with quiet / burst / dropout / drifting envelopes, 4 time steps, 3 STA x 3 LTA lengths, 9 limit pairs, 5 component subsets, amplitude scales 1e-13..1e5, none/traditional/azimuthal object",
     "hvsrpy.window_rejection.sta_lta_window_rejection", (90, 2000), sta_lta_clause),
    ("bounded:maximum-value rejection keeps a window iff its largest absolute sample (relative when normalised) is below the threshold; masks follow the last call", "bounded",
     "1-7 windows, 5 component subsets, normalised/absolute, 6 thresholds, call sequences of two", "hvsrpy.window_rejection.maximum_value_window_rejection", (120, 2500), maxval_clause),
]

if __name__ == "__main__":
    run(CLAUSES)
