"""C17 native harness: PSD normalisation (Parseval, Welch), diffuse-field agreement, PSD preprocessing (derivative, flat response)."""
import numpy as np
from scipy.signal import detrend
from scipy.signal.windows import tukey

from bounded.common import close, run
from bounded import refproc as rp
from bounded.C10 import _ref_filter, _ref_orient


def _psd_settings(width, n=None, smoothing=None):
    import hvsrpy
    s = hvsrpy.PsdProcessingSettings(window_type_and_width=["tukey", width], fft_settings=(None if n is None else dict(n=n)),
                                     smoothing=dict(operator="konno_and_ohmachi", bandwidth=40, center_frequencies_in_hz=np.array([1., 2., 5.])))
    s.smoothing = smoothing
    return s


def psd_clause(cl, rng, n, replay):
    import hvsrpy
    from hvsrpy.processing import _rpds_single_component
    for j in range(n):
        N = int(rng.choice([64, 100, 128, 250, 300]))
        dt = float(rng.choice([0.01, 0.005, 0.02, 1 / 75]))
        W = int(rng.integers(1, 5))
        width = float(rng.choice([0.0, 0.1, 0.5, 1.0]))
        nfft = int(rng.choice([N if N % 2 == 0 else N + 1, 256 if N <= 256 else 512, 1024]))
        scale = float(10.0 ** rng.integers(-4, 4))
        if j % 5 == 4:
            # a long record: more windows than any batch a vectorised implementation might form (65 .. 150, not a multiple of 64 / 32 / 50), the level drifting over the record
            W = int(rng.choice([65, 70, 97, 129, 150]))
        xs = [scale * (1.0 + (4.0 * i / W if W > 8 else 0.0)) * (rng.normal(0, 1, N) + rng.uniform(-1, 1)) for i in range(W)]
        short_last = W >= 2 and j % 3 == 1          # what split() hands on when the record ends with the last window: one sample fewer
        if short_last:
            xs[-1] = xs[-1][:-1]
        s = _psd_settings(width, nfft)
        ts = [hvsrpy.TimeSeries(x, dt) for x in xs]
        got = _rpds_single_component(ts, s)
        want = rp.psd_single(xs, dt, nfft, width)
        cl.case((N, dt, W, width, nfft, scale))
        if got.shape != (nfft // 2 + 1,) or not close(got, want, 1e-9, 0):
            cl.fail("hvsrpy.processing._rpds_single_component", "PSD differs from the average over the windows of 2 |X_w|^2 / (mean(taper_w^2) N_w fs)"
                    + (" (final window one sample short)" if short_last else ""), signature="psd:normalisation" + (":short-last-window" if short_last else ""),
                    N=N, dt=dt, windows=W, width=width, n=nfft, short_last=short_last)
            return
        if any(not np.array_equal(t.amplitude, x) for t, x in zip(ts, xs)):
            cl.fail("hvsrpy.processing._rpds_single_component", "input series modified", signature="psd:frame")
            return
        # Welch: average of the single-window densities; amplitude scaling k**2
        singles = [_rpds_single_component([hvsrpy.TimeSeries(x, dt)], _psd_settings(width, nfft)) for x in xs]
        k = 3.0
        scaled = _rpds_single_component([hvsrpy.TimeSeries(k * x, dt) for x in xs], _psd_settings(width, nfft))
        if not (close(got, np.mean(singles, axis=0), 1e-9, 0) and close(scaled, k * k * got, 1e-9, 0)):
            cl.fail("hvsrpy.processing._rpds_single_component", "Welch averaging / amplitude-squared scaling violated"
                    + (" (final window one sample short)" if short_last else ""), signature="psd:welch" + (":short-last-window" if short_last else ""))
            return
        # Parseval (single window): sum over bins strictly between 0 and Nyquist times df accounts for the tapered mean square not in those two bins
        x = xs[0]
        N = len(x)
        w = tukey(N, alpha=width)
        X = np.fft.rfft(x * w, nfft)
        df = 1 / (nfft * dt)
        lhs = np.sum(singles[0][1:nfft // 2]) * df
        rhs = (np.mean((x * w) ** 2) - (abs(X[0]) ** 2 + abs(X[nfft // 2]) ** 2) / (nfft * N)) / np.mean(w ** 2)
        if not close(lhs, rhs, 1e-8, 1e-12 * scale ** 2):
            cl.fail("hvsrpy.processing._rpds_single_component", f"Parseval: integrated PSD {lhs} vs tapered mean square not carried by the 0 Hz / Nyquist bins {rhs}",
                    signature="psd:parseval", N=N, n=nfft, width=width)
            return


def rpsd_diffuse_clause(cl, rng, n, replay):
    import hvsrpy
    for j in range(n):
        dt = float(rng.choice([0.01, 0.02]))
        N = int(rng.choice([128, 200, 256]))
        W = int(rng.integers(1, 4))
        width = float(rng.choice([0.1, 0.3]))
        amp = [1.0, 1e-8, 1.0, 1e3, 1e-10][j % 5]          # ground motion in SI units is tiny: the ratio does not depend on the unit
        raws = [rp.gen_window(rng, N=N, dt=dt, scale=amp) for _ in range(W)]
        smooth = j % 2 == 0
        fcs = np.array([1.0, 2.5, 6.0, 12.0])
        sm = dict(operator="konno_and_ohmachi", bandwidth=20., center_frequencies_in_hz=fcs)
        user_n = [512, 64, 512, 100][j % 4]                  # a requested FFT length below the window length is raised, never used to truncate
        s = _psd_settings(width, user_n, smoothing=(sm if smooth else None))
        out = hvsrpy.process([rp.mk_record(*r) for r in raws], s)
        cl.case(("rpsd", N, dt, W, smooth))
        nn = s.fft_settings["n"]
        if nn < N:
            cl.fail("hvsrpy.processing.rpsd", "FFT length below the window length", signature="rpsd:n")
            return
        f = np.fft.rfftfreq(nn, dt)
        for ci, name in enumerate(("ns", "ew", "vt")):
            want = rp.psd_single([r[ci] for r in raws], dt, nn, width)
            if smooth:
                want = rp.smooth("konno_and_ohmachi", f, want[None, :], fcs, 20.)[0][0]
            if not (close(out[name].amplitude, want, 1e-8, 0) and close(out[name].frequency, fcs if smooth else f, 0, 0)):
                cl.fail("hvsrpy.processing.rpsd", f"component {name}: PSD / frequency axis", signature="rpsd:component", smoothing=smooth)
                return
        # diffuse field from the same windows, incl. a first recording with a different (discarded) time step
        recs = [rp.mk_record(*r) for r in raws]
        pattern = j % 3
        if pattern and W >= 2:
            other = rp.gen_window(rng, N=N, dt=dt * 2, scale=1.0)
            recs = ([rp.mk_record(*other)] + recs) if pattern == 1 else (recs + [rp.mk_record(*other)])
        ds = hvsrpy.HvsrDiffuseFieldProcessingSettings(window_type_and_width=["tukey", width], smoothing=sm, fft_settings=dict(n=user_n))
        h = hvsrpy.process(recs, ds)
        want, margin = rp.curve_diffuse(raws, ds.fft_settings["n"], width, "konno_and_ohmachi", 20., fcs)
        cl.case(("diffuse", pattern, W))
        if margin > 1e-7 and not close(h.amplitude, want, 1e-8, 0):
            cl.fail("hvsrpy.processing.diffuse_field_hvsr_processing", "diffuse-field HVSR != sqrt(S(Pns+Pew)/S(Pvt)) of the retained windows "
                    f"(minority time step {'first' if pattern == 1 else 'last' if pattern == 2 else 'absent'})", signature="diffuse:agreement", pattern=pattern)
            return


def long_records_clause(cl, rng, n, replay):
    """recordings of different lengths in every order (the longest first, in the middle, last), lengths on both sides of the library's minimum FFT length: the FFT
    length is never below the longest recording and the density is the average of the single-recording densities"""
    import itertools
    import hvsrpy
    orders = list(itertools.permutations([20000, 40000, 25000]))
    for j in range(n):
        lens = orders[j % len(orders)]
        dt, width = 0.01, 0.1
        raws = [rp.gen_window(rng, N=L_, dt=dt, scale=1.0) for L_ in lens]
        s = _psd_settings(width, None)
        out = hvsrpy.process([rp.mk_record(*r) for r in raws], s)
        nn = s.fft_settings["n"]
        cl.case(("lengths", lens))
        if nn < max(lens):
            cl.fail("hvsrpy.processing.prepare_fft_settings", f"FFT length {nn} below the longest recording ({max(lens)} samples; lengths in order {lens})", signature="rpsd:n-long", lengths=lens)
            return
        for ci, name in enumerate(("ns", "ew", "vt")):
            want = rp.psd_single([r[ci] for r in raws], dt, nn, width)
            if not close(out[name].amplitude, want, 1e-8, 0):
                cl.fail("hvsrpy.processing.rpsd", f"component {name}: density of recordings of lengths {lens} is not the average of the single-recording densities",
                        signature="rpsd:unequal-long", lengths=lens)
                return


class _Flat:
    """flat instrument response: no poles, no zeros"""


def preprocess_clause(cl, rng, n, replay):
    import hvsrpy
    from hvsrpy.instrument_response import InstrumentTransferFunction
    for j in range(n):
        fs = float(rng.choice([100., 50., 200.]))
        dt = 1 / fs
        N = int(rng.integers(int(4.2 * fs), int(6 * fs)))
        comp = [rng.normal(0, 1, N) + rng.uniform(-2, 2) for _ in range(3)]
        diff = bool(j % 2)
        resp = bool((j // 2) % 2)
        sens, norm = float(rng.choice([2.0, 400.0, 0.5, -400.0, -0.5])), float(rng.choice([1.0, 3.0, -1.0]))      # (a polarity-reversed channel: negative flat gain)
        corners = [(None, None), (0.5, None)][(j // 4) % 2]
        L = [None, 2.0][(j // 8) % 2]
        width = 0.1
        itf = InstrumentTransferFunction(poles=[], zeros=[], instrument_sensitivity=sens, normalization_factor=norm) if resp else None
        # FFT length of the response removal / derivative: the library's choice, or the user's - odd lengths included (an inverse transform has to be told its length)
        fft = [None, dict(n=40001), dict(n=36000), dict(n=32769), None][(j // 3) % 5]
        s = hvsrpy.PsdPreProcessingSettings(orient_to_degrees_from_north=None, filter_corner_frequencies_in_hz=list(corners), window_length_in_seconds=L,
                                            detrend="constant", window_type_and_width=["tukey", width], instrument_transfer_function=itf, differentiate=diff,
                                            fft_settings=fft)
        rec = rp.mk_record(*comp, dt)
        try:
            out = hvsrpy.preprocess([rec], s)
        except Exception as ex:
            cl.fail("hvsrpy.preprocessing.psd_preprocess", f"{type(ex).__name__}: {ex}", signature="psdpre:exception")
            return
        nfft = s.fft_settings["n"]
        want = []
        for x in comp:
            y = _ref_filter(np.array(x, float), corners, dt)
            if resp or diff:
                y = detrend(y, type="constant") * tukey(N, alpha=width)
            if resp:
                X = np.fft.rfft(y, nfft)
                X[0] = 0
                y = np.fft.irfft(X / (sens * norm), nfft)[:N]
                y = _ref_filter(y, corners, dt)
            if diff:
                f = np.fft.rfftfreq(nfft, dt)
                y = np.fft.irfft(np.fft.rfft(y, nfft) * (2j * np.pi * f), nfft)[:N]
            want.append(y)
        if L is None:
            chunks = [tuple(want)]
        else:
            k = int(round(L * fs))
            chunks = [tuple(c[i * k: min(i * k + k + 1, N)] for c in want) for i in range(N // k)]
        chunks = [tuple(detrend(c, type="constant") for c in ch) for ch in chunks]
        cl.case((fs, N, diff, resp, corners, L, nfft))
        if len(out) != len(chunks):
            cl.fail("hvsrpy.preprocessing.psd_preprocess", "number of windows", signature="psdpre:count")
            return
        for w, ch in zip(out, chunks):
            sc = max(1.0, float(np.max(np.abs(ch[0]))))
            if not (close(w.ns.amplitude, ch[0], 1e-8, 1e-9 * sc) and close(w.ew.amplitude, ch[1], 1e-8, 1e-9 * sc) and close(w.vt.amplitude, ch[2], 1e-8, 1e-9 * sc)):
                cl.fail("hvsrpy.preprocessing.psd_preprocess", "series differ from: filter -> (constant detrend, taper) -> divide by flat response with the mean removed "
                        "-> filter -> spectral derivative -> split -> detrend", signature="psdpre:series", differentiate=diff, response=resp, corners=corners)
                return


CLAUSES = [
    ("bounded:recordings of 20000 / 40000 / 25000 samples in all six orders: FFT length >= the longest, density = average of the single-recording densities", "bounded",
     "three recordings, six orders", "hvsrpy.processing.prepare_fft_settings", (6, 12), long_records_clause),
    ("bounded:PSD == Welch-normalised periodogram; Parseval; k**2 scaling; average of single-window densities", "bounded",
     "1-4 windows of 64-300 samples (in a third of the multi-window cases the final window is one sample short, as split() produces), 4 time steps, 4 taper widths, 3 even FFT lengths, amplitude scales 1e-4..1e3", "hvsrpy.processing._rpds_single_component", (80, 2000), psd_clause),
    ("bounded:rpsd components / frequency axis (smoothing on/off); diffuse field == sqrt(S(Pns+Pew)/S(Pvt)) of the retained windows", "bounded",
     "1-3 windows, minority time step first / last / absent", "hvsrpy.processing.diffuse_field_hvsr_processing", (30, 600), rpsd_diffuse_clause),
    ("bounded:psd_preprocess == documented steps; spectral derivative; flat response = division by sensitivity with the mean removed", "bounded",
     "3 rates, differentiate x response x 2 corner sets x 2 window lengths", "hvsrpy.preprocessing.psd_preprocess", (32, 320), preprocess_clause),
]

if __name__ == "__main__":
    run(CLAUSES)
