"""C16 native harness: SESAME (2004) reliability / clarity verdicts against the guideline's table, transcribed independently."""
import io
import contextlib

import numpy as np

from bounded.common import close, run
from bounded.C08 import spec_peak, local_maxima, nearest

EDGES = [0.2, 0.5, 1.0, 2.0]
TABLE = [(0.25, 3.0), (0.20, 2.5), (0.15, 2.0), (0.10, 1.78), (0.05, 1.58)]     # (epsilon, theta) for <0.2, 0.2-0.5, 0.5-1, 1-2, >2 Hz


def band(f0):
    """thresholds of the guideline's table; a band edge belongs to the higher band (the stricter thresholds apply at a shared edge)"""
    k = 0
    for e in EDGES:
        if f0 >= e:
            k += 1
    return TABLE[k]


def trim(search_range, f, mc, sc):
    if search_range[0] is None and search_range[1] is None:
        return f, mc, sc
    lo = min(f) if search_range[0] is None else float(search_range[0])
    hi = max(f) if search_range[1] is None else float(search_range[1])
    lo, hi = min(lo, hi), max(lo, hi)
    L, U = nearest(f, lo), nearest(f, hi)
    return f[L:U + 1], mc[L:U + 1], sc[L:U + 1]


def peak_idx(curve):
    P = local_maxima(curve)
    if not P:
        return None
    return max(P, key=lambda p: (curve[p], -p))


def spec_reliability(lw, nw, f, mc, sc, search_range):
    f, mc, sc = trim(search_range, f, mc, sc)
    p = peak_idx(mc)
    if p is None:
        return None
    f0 = f[p]
    sigma = np.exp(sc)
    sel = (f > 0.5 * f0) & (f < 2 * f0)
    if not sel.any():
        return None
    smax = sigma[sel].max()
    out = [f0 > 10 / lw, lw * nw * f0 > 200, smax < (2 if f0 > 0.5 else 3)]
    razor = any(abs(a - b) <= 1e-9 * max(1, abs(b)) for a, b in ((f0, 10 / lw), (lw * nw * f0, 200), (smax, 2 if f0 > 0.5 else 3), (f0, 0.5)))
    return np.array(out, dtype=float), razor


def spec_clarity(f, mc, sc, fn_std, search_range):
    f, mc, sc = trim(search_range, f, mc, sc)
    p = peak_idx(mc)
    if p is None:
        return None
    f0, A0 = f[p], mc[p]
    sigma = np.exp(sc)
    c1 = bool(np.any(mc[(f >= f0 / 4) & (f <= f0)] < A0 / 2))
    c2 = bool(np.any(mc[(f >= f0) & (f <= 4 * f0)] < A0 / 2))
    c3 = A0 > 2
    pu, pl = peak_idx(mc * sigma), peak_idx(mc / sigma)
    if pu is None or pl is None:
        return None
    c4 = (0.95 * f0 < f[pu] < 1.05 * f0) and (0.95 * f0 < f[pl] < 1.05 * f0)
    eps, theta = band(f0)
    c5 = fn_std < eps * f0
    c6 = sigma[p] < theta
    razor = any(abs(a - b) <= 1e-9 * max(1, abs(b)) for a, b in ((A0, 2), (fn_std, eps * f0), (sigma[p], theta), (f[pu], 0.95 * f0), (f[pu], 1.05 * f0),
                                                                 (f[pl], 0.95 * f0), (f[pl], 1.05 * f0)))
    razor |= bool(np.any(np.abs(mc - A0 / 2) <= 1e-12))
    return np.array([c1, c2, c3, c4, c5, c6], dtype=float), razor


def gen(rng, j):
    grid_kind = j % 3
    if grid_kind == 0:
        f = np.geomspace(0.05, 40, int(rng.integers(40, 120)))
    elif grid_kind == 1:
        f = 0.0625 * 2.0 ** (np.arange(0, 40) / 4)          # contains exact band edges 0.25*..., 0.5, 1.0, 2.0 and exact f0/4, 4 f0 samples
    else:
        f = np.arange(1, 80) * 0.1                           # 0.1 .. 7.9, contains 0.2, 0.5, 1.0, 2.0 up to rounding
    if grid_kind == 1 and rng.random() < 0.7:
        f0 = float(rng.choice([0.25, 0.5, 1.0, 2.0, 4.0]))
    elif rng.random() < 0.4:
        f0 = float(rng.choice(f[(f > f[3]) & (f < f[-4])]))
    else:
        f0 = float(rng.uniform(0.1, 6))
    amp = float(rng.choice([1.2, 1.9, 2.0, 2.5, 4.0, 7.0]))
    width = float(rng.choice([0.08, 0.2, 0.5, 1.0]))
    mc = 1 + (amp - 1) * np.exp(-(np.log(f / f0) / width) ** 2)
    if rng.random() < 0.3:
        mc = mc + 0.6 * np.exp(-(np.log(f / (f0 * rng.choice([0.3, 3.1]))) / 0.1) ** 2)
    if rng.random() < 0.25:
        mc = mc + np.where(f < f[3], 4.0, 0.0) * (f[3] - f) / f[3]        # edge higher than the peak
    if rng.random() < 0.2:
        mc = mc * np.where(f > 3.5 * f0, 0.3, 1.0)
    sc = np.full_like(f, float(rng.choice([0.1, 0.4, 0.65, 0.7, 0.9, 1.1]))) * (1 + 0.3 * np.sin(np.log(f) * rng.uniform(1, 4)))
    sc = np.abs(sc)
    return f, mc, sc


def _silent(fn, *a, **k):
    buf = io.StringIO()
    with contextlib.redirect_stdout(buf):
        return fn(*a, **k)


def main_clause(cl, rng, n, replay):
    import hvsrpy.sesame as ses
    for j in range(n):
        f, mc, sc = gen(rng, j)
        lw = float(rng.choice([10., 30., 60., 120.]))
        nw = int(rng.choice([5, 10, 30, 100]))
        fn_std = float(rng.choice([0.01, 0.05, 0.1, 0.2, 0.5, 0.0]))        # 0.0: every window peaks on the same frequency sample (normal distribution)
        sr = [(None, None), (None, None), (float(f[2]), None), (None, float(f[-3])), (float(f[1]) * 1.01, float(f[-2]) * 0.99), (float(f[-2]), float(f[2]))][j % 6]
        verbose = j % 3
        if j % 6 == 1 and (j // 6) % 2 == 0:
            # the same curves stored from the highest frequency down (process() accepts centre frequencies in any order): the criteria speak about frequencies, not positions.
            # Only with the full range: with a bounded range the library refuses such a vector (IndexError out of trim_curve), which is no verdict at all
            # (made one-sided first: a shelf at three quarters of the peak on one side of it, so that criteria i and ii - below / above f0 - have different answers)
            p0 = int(np.argmax(mc))
            side = (f < f[p0]) if (j // 12) % 2 else (f > f[p0])
            mc = np.where(side & (mc < 0.75 * mc[p0]), 0.75 * mc[p0], mc)
            f, mc, sc = f[::-1].copy(), mc[::-1].copy(), sc[::-1].copy()
        wr, wc = spec_reliability(lw, nw, f, mc, sc, sr), spec_clarity(f, mc, sc, fn_std, sr)
        if wr is None or wc is None or wr[1] or wc[1]:
            cl.skipped += 1
            continue
        args0 = (f.copy(), mc.copy(), sc.copy())
        try:
            gr = _silent(ses.reliability, lw, nw, f, mc, sc, search_range_in_hz=sr, verbose=verbose)
            gc = _silent(ses.clarity, f, mc, sc, fn_std, search_range_in_hz=sr, verbose=verbose)
        except Exception as ex:
            cl.fail("hvsrpy.sesame", f"{type(ex).__name__}: {ex}", signature="sesame:exception", verbose=verbose, search_range=sr)
            return
        cl.case((j, lw, nw, fn_std, sr, verbose), nontrivial=bool(wc[0].any() and not wc[0].all()))
        if not np.array_equal(gr, wr[0]):
            cl.fail("hvsrpy.sesame.reliability", f"verdicts {gr.tolist()} differ from the guideline {wr[0].tolist()}", signature="sesame:reliability",
                    frequency=f, mean_curve=mc, std_curve=sc, windowlength=lw, windows=nw, search_range=sr)
            return
        if not np.array_equal(gc, wc[0]):
            cl.fail("hvsrpy.sesame.clarity", f"verdicts {gc.tolist()} differ from the guideline {wc[0].tolist()}", signature="sesame:clarity",
                    frequency=f, mean_curve=mc, std_curve=sc, fn_std=fn_std, search_range=sr)
            return
        if not (np.array_equal(args0[0], f) and np.array_equal(args0[1], mc) and np.array_equal(args0[2], sc)):
            cl.fail("hvsrpy.sesame", "inputs modified", signature="sesame:frame")
            return
        # verbosity does not influence the verdicts; monotonicity of ii and v
        for v in (0, 1, 2):
            if not (np.array_equal(_silent(ses.reliability, lw, nw, f, mc, sc, search_range_in_hz=sr, verbose=v), gr)
                    and np.array_equal(_silent(ses.clarity, f, mc, sc, fn_std, search_range_in_hz=sr, verbose=v), gc)):
                cl.fail("hvsrpy.sesame", "verdict depends on the verbosity", signature="sesame:verbose")
                return
        # the verdicts are about the curves as they are *now*: the same array objects rewritten in place with another curve (re-used buffers, the next site of a batch)
        # and assessed again with the same search range
        if j % 2 == 0:
            mc[:] = mc[::-1].copy()
            sc[:] = sc[::-1].copy()
            wr2, wc2 = spec_reliability(lw, nw, f, mc, sc, sr), spec_clarity(f, mc, sc, fn_std, sr)
            if not (wr2 is None or wc2 is None or wr2[1] or wc2[1]):
                try:
                    gr2 = _silent(ses.reliability, lw, nw, f, mc, sc, search_range_in_hz=sr, verbose=0)
                    gc2 = _silent(ses.clarity, f, mc, sc, fn_std, search_range_in_hz=sr, verbose=0)
                except Exception as ex:
                    cl.fail("hvsrpy.sesame", f"{type(ex).__name__}: {ex} (same arrays rewritten in place)", signature="sesame:exception-reuse")
                    return
                cl.case((j, "same arrays rewritten in place"))
                if not (np.array_equal(gr2, wr2[0]) and np.array_equal(gc2, wc2[0])):
                    cl.fail("hvsrpy.sesame.clarity", f"after the same arrays were rewritten in place with another curve: verdicts {gr2.tolist()} / {gc2.tolist()} differ from the "
                            f"guideline {wr2[0].tolist()} / {wc2[0].tolist()} for the curve they hold now", signature="sesame:buffer-reuse", frequency=f, mean_curve=mc, std_curve=sc, search_range=sr)
                    return
            mc[:] = mc[::-1].copy()
            sc[:] = sc[::-1].copy()
        g2 = _silent(ses.reliability, lw * 2, nw + 7, f, mc, sc, search_range_in_hz=sr, verbose=0)
        c2 = _silent(ses.clarity, f, mc, sc, fn_std / 3, search_range_in_hz=sr, verbose=0)
        if (gr[1] == 1 and g2[1] != 1) or (gc[4] == 1 and c2[4] != 1):
            cl.fail("hvsrpy.sesame", "more/longer windows failed criterion ii or a smaller fn std failed criterion v", signature="sesame:monotone")
            return


def edges_clause(cl, rng, n, replay):
    """peak exactly on the band edges 0.2, 0.5, 1, 2 Hz with fn_std / sigma_A between the two adjacent thresholds"""
    import hvsrpy.sesame as ses
    f = 0.0125 * 2.0 ** (np.arange(0, 48) / 4)        # exact samples at 0.2? no: use a grid that contains the edges exactly
    f = np.array(sorted(set(np.round(np.concatenate([np.geomspace(0.02, 20, 60), [0.05, 0.1, 0.2, 0.4, 0.5, 0.8, 1.0, 1.25, 2.0, 4.0, 8.0]]), 12))))
    for j in range(n):
        f0 = EDGES[j % 4]
        p = int(np.where(f == f0)[0][0])
        mc = 1 + 3 * np.exp(-(np.log(f / f0) / 0.15) ** 2)
        mc[p] = mc.max() + 0.01
        eps_lo, th_lo = TABLE[j % 4]
        eps_hi, th_hi = TABLE[j % 4 + 1]
        fn_std = f0 * (eps_lo + eps_hi) / 2          # passes the lower band's epsilon, fails the higher band's
        s_at = np.log((th_lo + th_hi) / 2)
        sc = np.full_like(f, s_at)
        want = spec_clarity(f, mc, sc, fn_std, (None, None))
        got = _silent(ses.clarity, f, mc, sc, fn_std, verbose=0)
        cl.case((f0, j))
        if want is None or want[1]:
            cl.skipped += 1
            continue
        if not np.array_equal(got, want[0]):
            cl.fail("hvsrpy.sesame.clarity", f"peak exactly at the band edge {f0} Hz: verdicts {got.tolist()} vs guideline table {want[0].tolist()} "
                    "(at a shared edge the higher band's stricter thresholds apply)", signature="sesame:band-edge", f0=f0)
            return


def tolerance_clause(cl, rng, n, replay):
    """criterion iv at its 5 % tolerance: a geometric grid whose neighbouring samples are 4.9 % .. 5.2 % apart, the mean curve peaking on one sample and the mean x exp(+std) curve
    on a neighbour - ratios 0.951 / 1.0515 (inside / outside the guideline's interval, measured against f0) are decided as the guideline decides them"""
    import hvsrpy.sesame as ses
    for j in range(n):
        step = [1.0515, 1.0490, 1.0505, 1.0520][j % 4]
        f0 = float(rng.choice([0.7, 1.3, 2.6, 5.0]))
        f = f0 * step ** np.arange(-40, 41)
        p = 40
        mc = 1 + 3 * np.exp(-(np.log(f / f0) / 0.3) ** 2)
        mc[p] += 0.02
        side = [-1, 1][(j // 4) % 2]
        # the standard-deviation curve tilts the +std curve towards one neighbour and the -std curve towards the other
        # the standard deviation is larger on one neighbour of the peak only: the +std curve peaks on that neighbour (0.03 is more than the mean curve falls to it), the
        # -std curve stays on the peak sample - so exactly one of the two frequencies of criterion iv sits next to the tolerance
        sc = 0.1 + 0.03 * (np.arange(len(f)) == p + side)
        want = spec_clarity(f, mc, sc, 0.01 * f0, (None, None))
        got = _silent(ses.clarity, f, mc, sc, 0.01 * f0, verbose=0)
        cl.case((j, step, f0, side), nontrivial=True)
        if want is None or want[1]:
            cl.skipped += 1
            continue
        if not np.array_equal(got, want[0]):
            cl.fail("hvsrpy.sesame.clarity", f"grid step {step}: verdicts {got.tolist()} differ from the guideline {want[0].tolist()} (criterion iv measures the 5 % against the peak "
                    "frequency of the mean curve)", signature="sesame:iv-tolerance", step=step, f0=f0)
            return


CLAUSES = [
    ("cross-check:criterion iv at its 5 % tolerance (neighbouring samples 4.9 % .. 5.2 % apart)", "cross-check", "geometric grids of 81 samples, 4 steps x 2 tilts x 4 peak frequencies",
     "hvsrpy.sesame.clarity", (16, 160), tolerance_clause),
    ("cross-check:reliability / clarity verdicts == SESAME (2004) criteria on the trimmed mean-curve peak (all verbosity levels, monotonicity)", "cross-check",
     "3 grid families (incl. exact f0/4, 4 f0 and band-edge samples), bumps with secondary peaks / high edges, 6 search ranges, 3 verbosity levels",
     "hvsrpy.sesame.clarity", (150, 3000), main_clause),
    ("cross-check:threshold table at the band edges 0.2 / 0.5 / 1 / 2 Hz", "cross-check", "peak placed exactly on each edge, fn_std and sigma_A between adjacent thresholds",
     "hvsrpy.sesame.clarity", (8, 40), edges_clause),
]

if __name__ == "__main__":
    run(CLAUSES)
