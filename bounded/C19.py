"""C19 native harness: the real command line entry point on generated files, for several orders and --nproc values, compared byte-wise with
the single-file library pipeline run with freshly loaded settings.  Samples schedules; the schedule-independence argument itself is the
structural obligation in contracts/C19.py (each task works on its own deep copy of the settings, no module-level state)."""
import itertools
import os
import subprocess
import sys
import tempfile

import numpy as np

from bounded.common import run


def make_files(d, rng):
    import obspy
    # 150 s each; with 70 s windows (family hvsr-fft) the windows of the first file hold 35001 samples and need an FFT longer than the
    # 32768 floor, those of the other files do not
    specs = [("fast_long", 500., 75000), ("slow", 100., 15000), ("mid", 200., 30000)]
    names = []
    for name, fs, n in specs:
        t = np.arange(n) / fs
        traces = []
        for ch in ("HHN", "HHE", "HHZ"):
            x = rng.normal(0, 1, n) + 2 * np.sin(2 * np.pi * rng.uniform(1, 8) * t)
            traces.append(obspy.Trace(data=x.astype(np.float64), header=dict(channel=ch, station="S" + name[:3].upper(), network="XX", sampling_rate=fs)))
        # SEED-style names: several dots, a common first token - the output is named after everything before the last suffix
        fn = {"fast_long": "XX.FAST.A2_C50.mseed", "slow": "XX.SLOW.A2_C150.mseed", "mid": "XX.MID.mseed"}[name]
        obspy.Stream(traces).write(os.path.join(d, fn), format="MSEED")
        names.append(fn)
    return names


def make_settings(d, kind):
    import hvsrpy
    fcs = np.geomspace(0.5, 20, 12)
    if kind == "hvsr-filter":
        pre = hvsrpy.HvsrPreProcessingSettings(window_length_in_seconds=2.0, filter_corner_frequencies_in_hz=[0.5, 20.0], detrend="linear")
    else:
        pre = hvsrpy.PsdPreProcessingSettings(window_length_in_seconds=2.0, differentiate=True, detrend="constant")
    if kind == "diffuse-figure":
        # diffuse-field processing, figures switched on, the y axis cut below the curve: what is written is what was computed, whatever the figure shows
        pre = hvsrpy.PsdPreProcessingSettings(window_length_in_seconds=2.0, detrend="constant")
        pro = hvsrpy.HvsrDiffuseFieldProcessingSettings(smoothing=dict(operator="konno_and_ohmachi", bandwidth=40., center_frequencies_in_hz=fcs))
        pre.save(os.path.join(d, f"pre_{kind}.json"))
        pro.save(os.path.join(d, f"pro_{kind}.json"))
        return f"pre_{kind}.json", f"pro_{kind}.json"
    if kind == "two-frequencies":
        # two centre frequencies only: no curve has an interior maximum, the mean curve has no peak and the figure cannot be drawn
        pre = hvsrpy.HvsrPreProcessingSettings(window_length_in_seconds=2.0, detrend="linear")
        pro = hvsrpy.HvsrTraditionalProcessingSettings(smoothing=dict(operator="konno_and_ohmachi", bandwidth=40., center_frequencies_in_hz=[1.0, 2.0]))
        pre.save(os.path.join(d, f"pre_{kind}.json"))
        pro.save(os.path.join(d, f"pro_{kind}.json"))
        return f"pre_{kind}.json", f"pro_{kind}.json"
    if kind == "hvsr-fft":
        # a settings file that carries an fft_settings dictionary: the length chosen for one file must not reach the next file of the chunk
        pre = hvsrpy.HvsrPreProcessingSettings(window_length_in_seconds=70.0, detrend="linear")
        pro = hvsrpy.HvsrTraditionalProcessingSettings(fft_settings=dict(n=1024), smoothing=dict(operator="konno_and_ohmachi", bandwidth=40., center_frequencies_in_hz=fcs))
    else:
        pro = hvsrpy.HvsrTraditionalProcessingSettings(smoothing=dict(operator="konno_and_ohmachi", bandwidth=40., center_frequencies_in_hz=fcs))
    pre.save(os.path.join(d, f"pre_{kind}.json"))
    pro.save(os.path.join(d, f"pro_{kind}.json"))
    return f"pre_{kind}.json", f"pro_{kind}.json"


def library_pipeline(d, fname, pre_file, pro_file, out_name, dmc="lognormal"):
    """read, preprocess, process, write for this file alone, settings freshly loaded, in a fresh interpreter"""
    code = ("import hvsrpy, sys\n"
            "from hvsrpy.object_io import read_settings_object_from_file as rs\n"
            f"pre, pro = rs({pre_file!r}), rs({pro_file!r})\n"
            f"rec = hvsrpy.read([[{fname!r}]])\n"
            "rec = hvsrpy.preprocess(rec, pre)\n"
            "h = hvsrpy.process(rec, pro)\n"
            f"hvsrpy.write_hvsr_object_to_file(h, {out_name!r}, distribution_mc={dmc!r}, distribution_fn='lognormal')\n")
    p = subprocess.run([sys.executable, "-W", "ignore", "-c", code], cwd=d, capture_output=True, text=True, env=os.environ)
    if p.returncode:
        raise RuntimeError("library pipeline failed: " + p.stderr[-800:])
    return open(os.path.join(d, out_name), "rb").read()


def cli_clause(cl, rng, n, replay):
    d = tempfile.mkdtemp(prefix="c19_")
    try:
        names = make_files(d, rng)
        configs = []
        for kind in ("hvsr-filter", "psd-diff", "hvsr-fft"):
            for order in itertools.permutations(range(3)):
                for nproc in (1, 2, 3):
                    configs.append((kind, order, nproc, "lognormal"))
        configs += [("hvsr-filter", order, 2, "normal") for order in itertools.permutations(range(3))]       # --distribution_mc differs from --distribution_fn
        # quick: the chunk-sharing schedules first (one worker: every file in one chunk, the long fast file first / last)
        first = [("hvsr-filter", (0, 1, 2), 1, "lognormal"), ("psd-diff", (0, 1, 2), 1, "lognormal"), ("hvsr-fft", (0, 1, 2), 1, "lognormal"), ("diffuse-figure", (1, 2, 0), 2, "lognormal"),
                 ("hvsr-filter", (1, 0, 2), 2, "normal"), ("psd-diff", (2, 1, 0), 3, "lognormal")]
        configs = first + [c for c in configs if c not in first]
        refs = {}
        for kind, order, nproc, dmc in configs[:n]:
            pre, pro = make_settings(d, kind)
            for f in names:
                if (kind, f, dmc) not in refs:
                    refs[(kind, f, dmc)] = library_pipeline(d, f, pre, pro, f"ref_{kind}_{dmc}_{os.path.splitext(f)[0]}.csv", dmc)
            for f in names:
                p = os.path.join(d, os.path.splitext(f)[0] + ".csv")
                if os.path.exists(p):
                    os.remove(p)
            args = [names[o] for o in order]
            code = "from hvsrpy.cli import cli; cli()"
            p = subprocess.run([sys.executable, "-W", "ignore", "-c", code] + args + ["--preprocessing_settings_file", pre, "--processing_settings_file", pro,
                                                                                       "--nproc", str(nproc), "--distribution_mc", dmc, "--distribution_fn", "lognormal"]
                               + (["--ymax", "0.4"] if kind == "diffuse-figure" else ["--no_figure"]),
                               cwd=d, capture_output=True, text=True, env=os.environ, timeout=600)
            cl.case((kind, order, nproc, dmc))
            # (the exit status is not part of the property - a figure that cannot be drawn makes the command end with an error after the files are written; what
            # counts is the file each input gets)
            for f in names:
                outp = os.path.join(d, os.path.splitext(f)[0] + ".csv")
                if not os.path.exists(outp):
                    cl.fail("hvsrpy.cli._process_hvsr", f"no output for {f} (order {order}, --nproc {nproc}; exit status {p.returncode}): {p.stderr[-600:]}", signature="cli:missing")
                    return
                got = open(outp, "rb").read()
                if got != refs[(kind, f, dmc)]:
                    cl.fail("hvsrpy.cli._process_hvsr", f"{kind}: output for {f} in batch order {[names[o] for o in order]} with --nproc {nproc} differs from the single-file "
                            "pipeline with freshly loaded settings", signature="cli:batch-dependence", order=order, nproc=nproc, settings=kind)
                    return
        # ---- a batch that contains a file the pipeline cannot process: every other file still gets its output, wherever the failing one stands and whatever --nproc
        bad = "XX.BROKEN.mseed"
        open(os.path.join(d, bad), "w").write("this is not a seismic recording\n")
        pre, pro = make_settings(d, "hvsr-filter")
        for f in names:
            if ("hvsr-filter", f, "lognormal") not in refs:
                refs[("hvsr-filter", f, "lognormal")] = library_pipeline(d, f, pre, pro, f"ref_hvsr-filter_lognormal_{os.path.splitext(f)[0]}.csv", "lognormal")
        batches = [([bad] + names, 1), ([names[0], bad] + names[1:], 2)] + ([(names + [bad], 1), ([bad] + names, 2), ([names[0], bad] + names[1:], 1), ([bad] + names, 3)] if n > 10 else [])
        for args, nproc in batches:
            for f in names:
                p = os.path.join(d, os.path.splitext(f)[0] + ".csv")
                if os.path.exists(p):
                    os.remove(p)
            subprocess.run([sys.executable, "-W", "ignore", "-c", "from hvsrpy.cli import cli; cli()"] + args + ["--preprocessing_settings_file", pre, "--processing_settings_file", pro,
                                                                                                               "--no_figure", "--nproc", str(nproc)],
                           cwd=d, capture_output=True, text=True, env=os.environ, timeout=600)
            cl.case(("a file that cannot be processed in the batch", tuple(args), nproc))
            for f in names:
                outp = os.path.join(d, os.path.splitext(f)[0] + ".csv")
                if not os.path.exists(outp) or open(outp, "rb").read() != refs[("hvsr-filter", f, "lognormal")]:
                    cl.fail("hvsrpy.cli.cli", f"batch {args} with --nproc {nproc} ({bad} cannot be processed): the output for {f} is "
                            f"{'missing' if not os.path.exists(outp) else 'not that of the single-file pipeline'}", signature="cli:failing-file-in-batch", batch=args, nproc=nproc)
                    return
        # ---- figures on (the default) for a file whose mean curve has no peak (the figure cannot be drawn): the result file is written all the same
        pre, pro = make_settings(d, "two-frequencies")
        f = names[1]
        ref = library_pipeline(d, f, pre, pro, f"ref_two-frequencies_{os.path.splitext(f)[0]}.csv", "lognormal")
        outp = os.path.join(d, os.path.splitext(f)[0] + ".csv")
        if os.path.exists(outp):
            os.remove(outp)
        subprocess.run([sys.executable, "-W", "ignore", "-c", "from hvsrpy.cli import cli; cli()", f, "--preprocessing_settings_file", pre, "--processing_settings_file", pro, "--nproc", "1"],
                       cwd=d, capture_output=True, text=True, env=os.environ, timeout=600)
        cl.case(("figure cannot be drawn", f))
        if not os.path.exists(outp) or open(outp, "rb").read() != ref:
            cl.fail("hvsrpy.cli._process_hvsr", f"figures on, the mean curve of {f} has no peak (two centre frequencies): the result file is "
                    f"{'missing' if not os.path.exists(outp) else 'not that of the single-file pipeline'} although read, preprocess, process and write succeed for this file",
                    signature="cli:figure-cannot-be-drawn")
            return
    finally:
        import shutil
        shutil.rmtree(d, ignore_errors=True)


CLAUSES = [
    ("bounded:CLI output per file == read/preprocess/process/write for that file alone (orders x --nproc x three settings families)", "bounded",
     "3 miniSEED files of 150 s (500, 100, 200 Hz); 2 s windows, and 70 s windows for the family with an fft_settings dictionary; quick 6 schedules (single-chunk first; one diffuse-field run with figures on and the y axis cut below the curve), thorough all 61; in every run two (thorough: six) batches containing a file that cannot be processed, and one file whose figure cannot be drawn", "hvsrpy.cli._process_hvsr", (6, 61), cli_clause),
]

if __name__ == "__main__":
    run(CLAUSES)
