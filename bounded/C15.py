"""C15 native harness: settings round-trip through files and are independent of one another."""
import copy
import os
import tempfile

import numpy as np

from bounded.common import close, run
from bounded import refproc as rp

CLASSES = ["HvsrPreProcessingSettings", "PsdPreProcessingSettings", "PsdProcessingSettings", "HvsrTraditionalProcessingSettings",
           "HvsrTraditionalSingleAzimuthProcessingSettings", "HvsrTraditionalRotDppProcessingSettings", "HvsrAzimuthalProcessingSettings",
           "HvsrDiffuseFieldProcessingSettings"]
FIXED = {"preprocessing_method", "processing_method", "method_to_combine_horizontals", "hvsrpy_version"}     # "should not be changed" discriminators


def content(v):
    if isinstance(v, np.ndarray):
        return content(v.tolist())
    if isinstance(v, (list, tuple)):
        return [content(x) for x in v]
    if isinstance(v, dict):
        return {str(k): content(x) for k, x in v.items()}
    if isinstance(v, (np.floating, np.integer, np.bool_)):
        return v.item()
    return v


def random_value(rng, name, cur):
    """a legal value for attribute `name`, exercising arrays / lists / tuples / None"""
    if name == "orient_to_degrees_from_north":
        return [None, 0.0, 33.5, 400][int(rng.integers(0, 4))]
    if name == "filter_corner_frequencies_in_hz":
        return [[None, None], [0.5, None], (0.3, 20.0), [None, 15]][int(rng.integers(0, 4))]
    if name == "window_length_in_seconds":
        return [None, 30.0, 2, 0.5][int(rng.integers(0, 4))]
    if name == "detrend":
        return [None, "none", "linear", "constant"][int(rng.integers(0, 4))]
    if name in ("ignore_dissimilar_time_step_warning", "differentiate"):
        return [False, True, np.bool_(True)][int(rng.integers(0, 3))]
    if name == "window_type_and_width":
        return [["tukey", 0.2], ("tukey", 0.05), ["tukey", 1.0]][int(rng.integers(0, 3))]
    if name == "fft_settings":
        return [None, {"n": None}, {"n": 4096}, {}][int(rng.integers(0, 4))]
    if name == "smoothing":
        # legal centre frequencies: exact and *nearly* geometric vectors (rounded to 6 decimals as copied from another program's output, passed through
        # single precision, generated as f0*r**k) must come back element by element
        g = np.geomspace(0.2, 20, 7)
        fc = [g, [0.5, 1.0, 2.0], (1.0, 3.0, 9.0), np.round(np.geomspace(0.3, 25, 9), 6), np.geomspace(0.2, 20, 8).astype(np.float32).astype(float),
              0.4 * 1.37 ** np.arange(8), np.array([2.5]), [4.0]][int(rng.integers(0, 8))]          # (one centre frequency: still a sequence)
        return dict(operator=str(rng.choice(["konno_and_ohmachi", "parzen", "log_rectangular"])), bandwidth=float(rng.choice([40., 0.5, 0.1])), center_frequencies_in_hz=fc)
    if name == "handle_dissimilar_time_steps_by":
        return str(rng.choice(["frequency_domain_resampling", "keeping_smallest_time_step", "keeping_majority_time_step"]))
    if name == "azimuth_in_degrees":
        return [0., 20., 135.5, np.float64(25.5), np.arange(0, 180, 15)[3]][int(rng.integers(0, 5))]      # numpy scalars (double / int64) are numbers too
    if name == "azimuths_in_degrees":
        # any order, repeated values allowed: each entry only has to lie in [0, 180]
        return [np.arange(0, 180, 30.), [0., 45., 90.], (10., 100.), np.array([5, 50, 95]), np.array([22.5, 67.5, 112.5]), [0.5, 45.25],
                [0., 90., 45., 135.], np.array([120., 60., 0.]), [0., 60., 120., 60.], (170., 10.),
                np.array([37.5]), [90.]][int(rng.integers(0, 12))]        # (a single azimuth is a sequence of length one, not a number)
    if name == "ppth_percentile_for_rotdpp_computation":
        return [0., 50., 84., 100., np.int64(50), np.float64(84.)][int(rng.integers(0, 6))]
    if name == "instrument_transfer_function":
        return None
    return cur


def build(rng, cls):
    import hvsrpy
    s = getattr(hvsrpy.settings, cls)()
    kwargs = {}
    for a in s.attrs:
        if a in FIXED:
            continue
        if rng.random() < 0.7:
            kwargs[a] = random_value(rng, a, getattr(s, a))
    if cls == "HvsrTraditionalProcessingSettings" and rng.random() < 0.7:
        # for the plain traditional settings the way of combining the horizontals is a genuine option (the other classes carry it as a fixed discriminator)
        kwargs["method_to_combine_horizontals"] = str(rng.choice(["squared_average", "arithmetic_mean", "total_horizontal_energy", "maximum_horizontal_value", "geometric_mean",
                                                                  "vector_summation", "quadratic_mean"]))
    if rng.random() < 0.3:
        # an object that came from a file written by another release carries that release's version string
        kwargs["hvsrpy_version"] = str(rng.choice(["1.0.0", "2.0.0rc1", "0.4.3"]))
    s = getattr(hvsrpy.settings, cls)(**copy.deepcopy(kwargs))
    # some attributes are changed afterwards by assignment / in place
    for a in list(s.attrs):
        if a in FIXED or rng.random() > 0.3:
            continue
        setattr(s, a, random_value(rng, a, getattr(s, a)))
    return s


def gentle_edit(s, rng):
    """a legal in-place change of a mutable attribute, after the object has been looked at (attr_dict / == / repr): what is saved is the
    object as it is when it is saved"""
    _ = s.attr_dict, (s == s), repr(s)
    done = []
    if isinstance(getattr(s, "smoothing", None), dict) and rng.random() < 0.7:
        s.smoothing["bandwidth"] = float(s.smoothing["bandwidth"]) * 0.5
        done.append("smoothing['bandwidth']")
    w = getattr(s, "window_type_and_width", None)
    if isinstance(w, list) and rng.random() < 0.7:
        w[1] = 0.33
        done.append("window_type_and_width[1]")
    a = getattr(s, "azimuths_in_degrees", None)
    if isinstance(a, np.ndarray) and a.dtype.kind == "f" and rng.random() < 0.7:
        a[0] = a[0] + 1.5
        done.append("azimuths_in_degrees[0]")
    fc = getattr(s, "filter_corner_frequencies_in_hz", None)
    if isinstance(fc, list) and rng.random() < 0.7:
        fc[0] = 0.7
        done.append("filter_corner_frequencies_in_hz[0]")
    return done


def roundtrip_clause(cl, rng, n, replay):
    import hvsrpy
    d = tempfile.mkdtemp(prefix="c15_")
    try:
        for j in range(n):
            cls = CLASSES[j % len(CLASSES)]
            s = build(rng, cls)
            if j % 2:
                gentle_edit(s, rng)
            want = {a: content(getattr(s, a)) for a in s.attrs}
            pub = {k for k in vars(s) if not k.startswith("_") and k != "attrs"}
            if pub - set(s.attrs) or set(s.attrs) - pub or len(set(s.attrs)) != len(s.attrs):
                cl.fail(f"hvsrpy.settings.{cls}.__init__", f"attrs {sorted(s.attrs)} vs public attributes {sorted(pub)}: something is silently not saved / listed twice",
                        signature="settings:attrs")
                return
            fn = os.path.join(d, f"s{j}.json")
            s.save(fn)
            direct = getattr(hvsrpy.settings, cls)()
            direct.load(fn)
            via = hvsrpy.read_settings_object_from_file(fn)
            cl.case((j, cls, repr(sorted(want.items()))[:200]))
            for how, b in (("load", direct), ("read_settings_object_from_file", via)):
                if type(b).__name__ != cls:
                    cl.fail("hvsrpy.object_io.read_settings_object_from_file", f"{cls} came back as {type(b).__name__}", signature="settings:class")
                    return
                got = {a: content(getattr(b, a)) for a in b.attrs}
                bad = [a for a in want if a not in got or got[a] != want[a]]
                if bad:
                    cl.fail(f"hvsrpy.settings.Settings.{how}", f"{cls}: attribute(s) {bad} not restored: saved {[want[a] for a in bad][:2]} loaded {[got.get(a) for a in bad][:2]}",
                            signature="settings:roundtrip:" + how.split("_")[0])
                    return
            # two files of one class read in one process: the object read first is an object of its own (it still holds the first file's values afterwards)
            if j % 3 == 0:
                s2 = build(rng, cls)
                fn2 = os.path.join(d, f"s{j}_second.json")
                s2.save(fn2)
                other = hvsrpy.read_settings_object_from_file(fn2)
                got = {a: content(getattr(via, a)) for a in via.attrs}
                bad = [a for a in want if a not in got or got[a] != want[a]]
                if other is via or bad:
                    cl.fail("hvsrpy.object_io.read_settings_object_from_file", f"{cls}: after a second file of the same class was read, the object read first no longer holds the first "
                            f"file's values ({bad}; same object: {other is via})", signature="settings:reader-shares-objects")
                    return
            # processing with the reloaded settings gives exactly the same result
            if "Processing" in cls and "Pre" not in cls:
                fcs = np.asarray(s.smoothing["center_frequencies_in_hz"], dtype=float)
                raws = [rp.gen_window(rng, N=100, dt=0.01, scale=1.0) for _ in range(2)]
                if fcs.max() < 45 and s.smoothing["operator"] == "konno_and_ohmachi":
                    from bounded.C09 import values
                    try:
                        r0 = values(hvsrpy.process([rp.mk_record(*r) for r in raws], copy.deepcopy(s)))
                        r1 = values(hvsrpy.process([rp.mk_record(*r) for r in raws], via))
                        if not np.array_equal(r0, r1, equal_nan=True):
                            cl.fail("hvsrpy.settings.Settings.load", f"{cls}: processing with the reloaded settings differs from processing with the original", signature="settings:process")
                            return
                    except ValueError:
                        pass
            elif "PreProcessing" in cls:
                rec = lambda: [rp.mk_record(*rp.gen_window(np.random.default_rng(j), N=700, dt=0.01, scale=1.0), degrees_from_north=15.)]
                try:
                    w0 = hvsrpy.preprocess(rec(), copy.deepcopy(s))
                    w1 = hvsrpy.preprocess(rec(), via)
                    if len(w0) != len(w1) or any(not np.array_equal(a.ns.amplitude, b.ns.amplitude) or not np.array_equal(a.vt.amplitude, b.vt.amplitude) for a, b in zip(w0, w1)):
                        cl.fail("hvsrpy.settings.Settings.load", f"{cls}: preprocessing with the reloaded settings differs ({len(w0)} vs {len(w1)} windows)", signature="settings:preprocess")
                        return
                except (ValueError, TypeError):
                    pass
    finally:
        import shutil
        shutil.rmtree(d, ignore_errors=True)


def mutate_in_place(v, rng):
    """returns True if an in-place mutation was applied"""
    if isinstance(v, np.ndarray) and v.size:
        if v.dtype.kind == "f":
            v += 1.25
        else:
            v += 1
        return True
    if isinstance(v, list) and v:
        v[-1] = 0.123456
        v.append("extra")
        return True
    if isinstance(v, dict):
        for k, x in list(v.items()):
            if mutate_in_place(x, rng):
                break
        v["__added__"] = 1
        return True
    return False


def independence_clause(cl, rng, n, replay):
    import hvsrpy
    for j in range(n):
        cls = CLASSES[j % len(CLASSES)]
        C = getattr(hvsrpy.settings, cls)
        baseline = {a: content(getattr(C(), a)) for a in C().attrs}
        shared = dict(filter_corner_frequencies_in_hz=[0.3, 12.0], window_type_and_width=["tukey", 0.3], fft_settings={"n": 2048},
                      smoothing=dict(operator="konno_and_ohmachi", bandwidth=30., center_frequencies_in_hz=np.array([1., 2., 3.])),
                      azimuths_in_degrees=np.array([0., 60., 120.]))
        mode = j // len(CLASSES) % 2
        a = C() if mode == 0 else C(**{k: v for k, v in shared.items() if k in C().attrs})
        b = C() if mode == 0 else C(**{k: v for k, v in shared.items() if k in C().attrs})
        if mode == 0 and "fft_settings" in a.attrs and hasattr(a, "processing_method") and j % 2 == 0:
            # a history of use: both objects have been through process() (which completes fft_settings), with recordings of different lengths
            from bounded import refproc as rp
            fcs = [1.0, 3.0, 9.0]
            for obj, N in ((a, 300), (b, 40000)):
                obj.smoothing = dict(operator="konno_and_ohmachi", bandwidth=40., center_frequencies_in_hz=list(fcs))
                before_other = content((b if obj is a else a).fft_settings)
                hvsrpy.process([rp.mk_record(*rp.gen_window(rng, N=N, dt=0.01))], obj)
                if content((b if obj is a else a).fft_settings) != before_other:
                    cl.fail("hvsrpy.processing.prepare_fft_settings", f"processing with one {cls} changed the fft_settings of another one: {before_other} -> "
                            f"{content((b if obj is a else a).fft_settings)}", signature="settings:shared-through-processing")
                    return
            if a.fft_settings is not None and a.fft_settings is b.fft_settings:
                cl.fail("hvsrpy.processing.prepare_fft_settings", f"after processing, two {cls} objects hold one and the same fft_settings dictionary", signature="settings:shared-through-processing")
                return
            baseline = {x: content(getattr(C(), x)) for x in C().attrs}
        snap_b = {x: content(getattr(b, x)) for x in b.attrs}
        snap_args = content(shared)
        touched = []
        for x in a.attrs:
            if x in FIXED:
                continue
            if mutate_in_place(getattr(a, x), rng):
                touched.append(x + "(in place)")
            else:
                setattr(a, x, "changed")
                touched.append(x + "(assigned)")
        cl.case((j, cls, mode))
        now_b = {x: content(getattr(b, x)) for x in b.attrs}
        if now_b != snap_b:
            bad = [x for x in snap_b if now_b.get(x) != snap_b[x]]
            cl.fail(f"hvsrpy.settings.{cls}.__init__", f"mutating one {cls} changed another object's {bad}", signature="settings:shared-between-objects", mode=mode)
            return
        if mode == 1 and content(shared) != snap_args:
            cl.fail(f"hvsrpy.settings.{cls}.__init__", "mutating a settings object changed the caller's argument objects", signature="settings:shared-with-caller")
            return
        fresh = {x: content(getattr(C(), x)) for x in C().attrs}
        if fresh != baseline:
            bad = [x for x in baseline if fresh.get(x) != baseline[x]]
            cl.fail(f"hvsrpy.settings.{cls}.__init__", f"mutating a {cls} changed the defaults of objects created later: {bad}", signature="settings:defaults")
            return
        # attr_dict is a snapshot, not a view
        d = b.attr_dict
        for v in d.values():
            mutate_in_place(v, rng)
        if {x: content(getattr(b, x)) for x in b.attrs} != snap_b:
            cl.fail("hvsrpy.settings.Settings.attr_dict", "mutating the returned attr_dict changed the settings object", signature="settings:attr_dict")
            return


CLAUSES = [
    ("bounded:save/load and the type-dispatching reader restore class and attribute content; (pre)processing with reloaded settings identical", "bounded",
     "8 classes, random legal attribute values (arrays, lists, tuples, None, dicts) set by constructor and by assignment", "hvsrpy.settings.Settings.load", (64, 1600), roundtrip_clause),
    ("cross-check:settings objects share no state with each other, with their constructor arguments, or with later defaults; attr_dict is a snapshot", "cross-check",
     "8 classes x defaults / shared caller arguments, every attribute mutated in place or by assignment", "hvsrpy.settings.Settings.__init__", (32, 320), independence_clause),
]

if __name__ == "__main__":
    run(CLAUSES)
