"""C11 native harness: azimuthal statistics weight every azimuth equally (Cheng et al. 2020)."""
import numpy as np

from bounded.common import close, run
from bounded import stats_ref as sr
from bounded.C05 import gen_object
from bounded.C08 import spec_peak

DISTS = ["lognormal", "normal", "log-normal", "lognormal"]


def gen_az(rng, naz=None, equal=False):
    import hvsrpy
    naz = int(naz or rng.integers(1, 5))
    m = int(rng.integers(20, 40))
    k0 = int(rng.integers(3, 7))
    hs, As = [], []
    f = None
    for a in range(naz):
        h, f, A = gen_object(rng, k=(k0 if equal else int(rng.integers(3, 8))), m=m)
        # every window gets a peak (the property assumes at least one accepted window per azimuth; peak-less windows are C08's topic)
        for i in range(len(A)):
            if np.isnan(h._main_peak_frq[i]):
                A[i] = 1 + 2 * np.exp(-(np.log(f / rng.uniform(0.8, 5)) / 0.3) ** 2)
        hs.append(hvsrpy.HvsrTraditional(f, A))
        As.append(A)
    az = list(np.sort(rng.choice(np.arange(0, 180, 5.), size=naz, replace=False)))
    # every azimuth in [0, 180] is legal, the end points together and repeated values included: each entry is one azimuth of the statement
    kind = int(rng.integers(0, 4))
    if naz >= 2 and kind == 0:
        az[0], az[-1] = 0., 180.
    elif naz >= 2 and kind == 1:
        az[1] = az[0]
    return hvsrpy.HvsrAzimuthal(hs, az), f, As


def reject_some(rng, h, same_size=False):
    for hv in h.hvsrs:
        n = len(hv.valid_window_boolean_mask)
        if same_size:
            k = int(hv.valid_window_boolean_mask.sum())
            sel = np.zeros(n, dtype=bool)
            sel[rng.choice(n, size=k, replace=False)] = True
        else:
            sel = rng.random(n) < 0.7
            if sel.sum() < 2:
                sel[:2] = True
        hv.valid_window_boolean_mask = np.array(sel)
        hv.valid_peak_boolean_mask = np.array(sel)


def swap_counts(rng, h):
    """redistribute accepted windows between azimuths keeping the total (history-dependent caches of the weights)"""
    if len(h.hvsrs) < 2:
        return
    a, b = rng.choice(len(h.hvsrs), size=2, replace=False)
    ha, hb = h.hvsrs[a], h.hvsrs[b]
    ia = np.flatnonzero(ha.valid_window_boolean_mask)
    ib = np.flatnonzero(~hb.valid_window_boolean_mask)
    if len(ia) > 2 and len(ib) > 0:
        ha.valid_window_boolean_mask[ia[0]] = False
        ha.valid_peak_boolean_mask[ia[0]] = False
        hb.valid_window_boolean_mask[ib[0]] = True
        hb.valid_peak_boolean_mask[ib[0]] = True


def expected(h, As, dist):
    counts = [int(hv.valid_peak_boolean_mask.sum()) for hv in h.hvsrs]
    w = sr.cheng_weights(counts)
    pf = np.concatenate([hv._main_peak_frq[hv.valid_peak_boolean_mask] for hv in h.hvsrs])
    pa = np.concatenate([hv._main_peak_amp[hv.valid_peak_boolean_mask] for hv in h.hvsrs])
    rows = np.concatenate([A[hv.valid_window_boolean_mask] for hv, A in zip(h.hvsrs, As)], axis=0)
    mc = np.array([sr.wmean(dist, rows[:, c], w) for c in range(rows.shape[1])])
    sc = np.array([sr.wstd(dist, rows[:, c], w) for c in range(rows.shape[1])])
    return dict(w=w, pf=pf, pa=pa, mc=mc, sc=sc, counts=counts)


def check(cl, h, f, As, hist):
    fn = "hvsrpy.hvsr_azimuthal.HvsrAzimuthal"
    for dist in DISTS:
        e = expected(h, As, dist)
        w, pf, pa = e["w"], e["pf"], e["pa"]
        try:
            checks = [("mean_fn_frequency", h.mean_fn_frequency(dist), sr.wmean(dist, pf, w)), ("mean_fn_amplitude", h.mean_fn_amplitude(dist), sr.wmean(dist, pa, w)),
                      ("std_fn_frequency", h.std_fn_frequency(dist), sr.wstd(dist, pf, w)), ("std_fn_amplitude", h.std_fn_amplitude(dist), sr.wstd(dist, pa, w)),
                      ("cov_fn", h.cov_fn(dist), sr.wcov(dist, pf, pa, w)), ("mean_curve", h.mean_curve(dist), e["mc"]), ("std_curve", h.std_curve(dist), e["sc"]),
                      ("nth_std_curve", h.nth_std_curve(1.5, dist), sr.nth(dist, 1.5, e["mc"], e["sc"])),
                      ("nth_std_fn_frequency", h.nth_std_fn_frequency(-2, dist), sr.nth(dist, -2, sr.wmean(dist, pf, w), sr.wstd(dist, pf, w))),
                      ("nth_std_fn_amplitude", h.nth_std_fn_amplitude(2, dist), sr.nth(dist, 2, sr.wmean(dist, pa, w), sr.wstd(dist, pa, w))),
                      ("weights", h._compute_statistical_weights(), w)]
            # the mean is the plain average over azimuths of the per-azimuth means; cov diagonal == std**2
            per_az = [sr.g(dist)(hv._main_peak_frq[hv.valid_peak_boolean_mask]).mean() for hv in h.hvsrs]
            checks.append(("mean == average of per-azimuth means", sr.g(dist)(h.mean_fn_frequency(dist)), np.mean(per_az)))
            checks.append(("cov diagonal == std^2", np.diag(h.cov_fn(dist)), np.array([h.std_fn_frequency(dist) ** 2, h.std_fn_amplitude(dist) ** 2])))
            mba = h.mean_curve_by_azimuth(dist)
            checks.append(("mean_curve_by_azimuth", mba, np.array([sr.mean(dist, A[hv.valid_window_boolean_mask]) if hv.valid_window_boolean_mask.sum() > 1
                                                                   else A[hv.valid_window_boolean_mask][0] for hv, A in zip(h.hvsrs, As)])))
            for name, got, want in checks:
                if not close(got, want, 1e-9, 1e-12):
                    cl.fail(fn, f"{name} [{dist}] differs from the equal-weight-per-azimuth estimator: got {np.asarray(got).ravel()[:3]}, want {np.asarray(want).ravel()[:3]}",
                            signature=f"az:{name.split(' ')[0]}", history=hist, counts=e["counts"])
                    return False
            want = spec_peak(f, e["mc"], h._search_range_in_hz)
            try:
                got = h.mean_curve_peak(dist)
                ok = want is not None and close(got[0], want[0], 1e-12) and close(got[1], want[1], 1e-9)
            except ValueError:
                ok = want is None
            if not ok:
                cl.fail(fn, "mean_curve_peak", signature="az:mcpeak", history=hist)
                return False
        except Exception as ex:
            cl.fail(fn, f"{type(ex).__name__}: {ex}", signature="az:exception", history=hist, counts=e["counts"])
            return False
    return True


def main_clause(cl, rng, n, replay):
    import hvsrpy
    for j in range(n):
        h, f, As = gen_az(rng)
        hist = ["fresh"]
        cl.case((j, 0))
        if not check(cl, h, f, As, hist):
            return
        for step in range(3):
            op = rng.integers(0, 3)
            if op == 0:
                reject_some(rng, h)
                hist.append("reject")
            elif op == 1:
                reject_some(rng, h, same_size=True)
                hist.append("reselect-same-size")
            else:
                swap_counts(rng, h)
                hist.append("swap-between-azimuths")
            cl.case((j, step + 1, tuple(hist)))
            if not check(cl, h, f, As, list(hist)):
                return
        # rejected windows do not matter, whatever they contain: a rejected window with exact zeros (a dead channel; amplitudes >= 0 are legal)
        cand = [(a, i) for a, hv in enumerate(h.hvsrs) for i in np.flatnonzero(~hv.valid_window_boolean_mask)]
        if cand:
            a, i = cand[int(rng.integers(0, len(cand)))]
            cols = rng.choice(len(f), size=int(rng.integers(1, len(f))), replace=False)
            h.hvsrs[a].amplitude[i, cols] = 0.0
            hist.append("zeros-in-a-rejected-window")
            cl.case((j, "zeros", tuple(hist)))
            with np.errstate(all="ignore"):
                if not check(cl, h, f, As, list(hist)):
                    return
        # order of the azimuths is irrelevant
        perm = rng.permutation(len(h.hvsrs))
        h2 = hvsrpy.HvsrAzimuthal([h.hvsrs[i] for i in perm], [h.azimuths[i] for i in perm])
        for i, src in zip(range(len(perm)), perm):
            h2.hvsrs[i].valid_window_boolean_mask = np.array(h.hvsrs[src].valid_window_boolean_mask)
            h2.hvsrs[i].valid_peak_boolean_mask = np.array(h.hvsrs[src].valid_peak_boolean_mask)
        for dist in ("normal", "lognormal"):
            if not (close(h.mean_fn_frequency(dist), h2.mean_fn_frequency(dist), 1e-10) and close(h.std_fn_amplitude(dist), h2.std_fn_amplitude(dist), 1e-10)
                    and close(h.mean_curve(dist), h2.mean_curve(dist), 1e-10) and close(h.std_curve(dist), h2.std_curve(dist), 1e-10)):
                cl.fail("hvsrpy.hvsr_azimuthal.HvsrAzimuthal", "statistics depend on the order of the azimuths", signature="az:order")
                return


def special_clause(cl, rng, n, replay):
    """single azimuth == traditional; equal counts == pooled unweighted"""
    import hvsrpy
    for j in range(n):
        h, f, As = gen_az(rng, naz=1)
        reject_some(rng, h)
        t = h.hvsrs[0]
        cl.case(("single", j))
        for dist in ("normal", "lognormal"):
            pairs = [(h.mean_fn_frequency(dist), t.mean_fn_frequency(dist)), (h.std_fn_frequency(dist), t.std_fn_frequency(dist)),
                     (h.std_fn_amplitude(dist), t.std_fn_amplitude(dist)), (h.cov_fn(dist), t.cov_fn(dist)), (h.mean_curve(dist), t.mean_curve(dist)),
                     (h.std_curve(dist), t.std_curve(dist))]
            if not all(close(a, b, 1e-9) for a, b in pairs):
                cl.fail("hvsrpy.hvsr_azimuthal.HvsrAzimuthal", "with a single azimuth a statistic differs from the traditional one", signature="az:single", dist=dist)
                return
        h, f, As = gen_az(rng, naz=int(rng.integers(2, 4)), equal=True)
        pf = np.concatenate([hv._main_peak_frq for hv in h.hvsrs])
        rows = np.concatenate(As, axis=0)
        cl.case(("equal", j))
        for dist in ("normal", "lognormal"):
            if not (close(h.mean_fn_frequency(dist), sr.mean(dist, pf), 1e-9) and close(h.std_fn_frequency(dist), sr.std(dist, pf), 1e-9)
                    and close(h.mean_curve(dist), sr.mean(dist, rows), 1e-9) and close(h.std_curve(dist), sr.std(dist, rows), 1e-9)):
                cl.fail("hvsrpy.hvsr_azimuthal.HvsrAzimuthal", "equal counts per azimuth: statistic differs from the unweighted pooled one", signature="az:pooled", dist=dist)
                return


def emptied_azimuth_clause(cl, rng, n, replay):
    """an azimuth all of whose windows were rejected (manual rejection can do that): the weights of the property are not defined for it.  The library may refuse (it does:
    ZeroDivisionError out of the weights); if it reports numbers instead, they obey the property - the covariance diagonal is the squared standard deviation, and with
    one azimuth left everything equals the traditional statistic of that azimuth"""
    import warnings
    import hvsrpy
    for j in range(n):
        naz = 2 if j % 2 else int(rng.integers(2, 4))
        m = int(rng.integers(20, 36))
        f = np.geomspace(0.2, 20, m)
        As = [np.array([1 + rng.uniform(1, 4) * np.exp(-(np.log(f / rng.uniform(0.8, 6)) / 0.3) ** 2) + 0.1 * np.abs(rng.normal(0, 1, m)) for _ in range(int(rng.integers(3, 7)))])
              for _ in range(naz)]
        h = hvsrpy.HvsrAzimuthal([hvsrpy.HvsrTraditional(f, A) for A in As], list(np.linspace(10, 150, naz)))
        if any(np.isnan(hv._main_peak_frq).any() for hv in h.hvsrs):
            cl.skipped += 1
            continue
        gone = int(rng.integers(0, naz))
        k = len(h.hvsrs[gone].valid_window_boolean_mask)
        h.hvsrs[gone].valid_window_boolean_mask = np.zeros(k, dtype=bool)
        h.hvsrs[gone].valid_peak_boolean_mask = np.zeros(k, dtype=bool)
        cl.case((j, naz, gone))
        for dist in ("lognormal", "normal"):
            with warnings.catch_warnings():
                warnings.simplefilter("ignore")
                try:
                    sf, sa, cov, mf = h.std_fn_frequency(dist), h.std_fn_amplitude(dist), h.cov_fn(dist), h.mean_fn_frequency(dist)
                except (ZeroDivisionError, ValueError, IndexError, FloatingPointError):
                    continue                      # refused: no number is reported for a state the weights are not defined for
            ok = np.isfinite(sf) and np.isfinite(sa) and close(cov[0, 0], sf ** 2, 1e-9, 1e-18) and close(cov[1, 1], sa ** 2, 1e-9, 1e-18)
            if ok and naz == 2:
                t = h.hvsrs[1 - gone]
                ok = close(sf, t.std_fn_frequency(dist), 1e-9, 1e-15) and close(mf, t.mean_fn_frequency(dist), 1e-9, 1e-15)
            if not ok:
                cl.fail("hvsrpy.hvsr_azimuthal.HvsrAzimuthal._compute_statistical_weights", f"[{dist}] azimuth {gone} of {naz} has no accepted window and numbers are reported all the same: "
                        f"std_fn_frequency {sf}, covariance diagonal {cov[0, 0]} (its square root {np.sqrt(abs(cov[0, 0]))}); the diagonal is not the squared standard deviation, or "
                        "with one azimuth left the statistic is not the traditional one", signature="az:emptied-azimuth", dist=dist)
                return


def degenerate_clause(cl, rng, n, replay):
    """inputs at the edge of the estimators' domain: an accepted window whose curve is exactly 0 at one frequency (legal: amplitudes are >= 0) must not change
    what is reported at the other frequencies; windows that agree exactly (one peak frequency for all, one amplitude at some frequency) have standard deviation 0
    there, and the covariance diagonal is still the squared standard deviation"""
    import warnings
    import hvsrpy
    for j in range(n):
        naz = int(rng.integers(1, 4))
        m = int(rng.integers(20, 36))
        f = np.geomspace(0.2, 20, m)
        if j % 2 == 0:
            As = []
            for a in range(naz):
                k = int(rng.integers(3, 7))
                As.append(np.array([1 + rng.uniform(1, 4) * np.exp(-(np.log(f / rng.uniform(0.8, 6)) / 0.3) ** 2) + 0.1 * np.abs(rng.normal(0, 1, m)) for _ in range(k)]))
            az_z, w_z, c0 = int(rng.integers(0, naz)), 0, int(rng.integers(0, 2))
            As[az_z][w_z, c0] = 0.0                  # the first or second frequency sample, far below every peak
            h = hvsrpy.HvsrAzimuthal([hvsrpy.HvsrTraditional(f, A) for A in As], list(np.linspace(10, 150, naz)))
            cl.case(("zero-sample", j, naz, c0))
            keep = np.arange(m) != c0
            with warnings.catch_warnings():
                warnings.simplefilter("ignore")
                for dist in ("lognormal", "normal"):
                    e = expected(h, As, dist)
                    got_m, got_s = h.mean_curve(dist), h.std_curve(dist)
                    if not (close(got_m[keep], e["mc"][keep], 1e-9, 1e-12) and close(got_s[keep], e["sc"][keep], 1e-9, 1e-12)):
                        cl.fail("hvsrpy.hvsr_azimuthal.HvsrAzimuthal.mean_curve", f"[{dist}] an accepted window with amplitude 0 at frequency sample {c0} changes the mean / standard-deviation "
                                "curve at other frequencies (every accepted window keeps its weight at every frequency)", signature="az:zero-sample", dist=dist)
                        return
        else:
            c = int(rng.integers(m // 3, 2 * m // 3))
            c1 = 1
            As = []
            for a in range(naz):
                k = int(rng.integers(3, 7))
                A = np.array([1 + rng.uniform(1, 4) * np.exp(-(np.log(f / f[c]) / 0.3) ** 2) for _ in range(k)])       # every window peaks on sample c
                A[:, c1] = 1.75                                                                                             # and they agree exactly at sample c1
                As.append(A)
            h = hvsrpy.HvsrAzimuthal([hvsrpy.HvsrTraditional(f, A) for A in As], list(np.linspace(10, 150, naz)))
            if sum(len(A) for A in As) < 3:
                continue
            cl.case(("agreeing-windows", j, naz))
            for dist in ("lognormal", "normal"):
                sf, cov = h.std_fn_frequency(dist), h.cov_fn(dist)
                sc = h.std_curve(dist)
                ok = (np.isfinite(sf) and abs(sf) <= 1e-12 and np.isfinite(sc[c1]) and abs(sc[c1]) <= 1e-12 and close(cov[0, 0], sf ** 2, 1e-9, 1e-20)
                      and close(h.mean_fn_frequency(dist), f[c], 1e-12))
                if not ok:
                    cl.fail("hvsrpy.statistics._nanstd_weighted", f"[{dist}] windows that agree exactly: std_fn_frequency = {sf} (expected 0), std_curve at the common sample = {sc[c1]} "
                            f"(expected 0), covariance diagonal {cov[0, 0]}", signature="az:agreeing-windows", dist=dist)
                    return


def known_f9(cl, rng, n, replay):
    import hvsrpy
    from bounded import refproc as rp
    f = np.geomspace(0.2, 20, 30)
    A = np.array([1 + 3 * np.exp(-(np.log(f / fc) / 0.3) ** 2) for fc in (1.0, 1.2, 0.9, 1.1)] + [np.linspace(4, 1, 30)])
    h = hvsrpy.HvsrAzimuthal([hvsrpy.HvsrTraditional(f, A), hvsrpy.HvsrTraditional(f, A[::-1].copy())], [0., 90.])
    recs = [rp.mk_record(*rp.gen_window(np.random.default_rng(5), N=400, dt=0.01)) for _ in range(5)]
    hvsrpy.sta_lta_window_rejection(recs, sta_seconds=0.2, lta_seconds=2, min_sta_lta_ratio=0.01, max_sta_lta_ratio=100., hvsr=h)
    cl.case("F-9")
    cl.case("F-9b")
    if any(np.any(hv.valid_peak_boolean_mask & np.isnan(hv._main_peak_frq)) for hv in h.hvsrs):
        cl.fail("hvsrpy.window_rejection.sta_lta_window_rejection", "azimuthal: valid_peak=True on a window without a peak after time-domain rejection",
                signature="F-9:wf-preservation:azimuthal")


CLAUSES = [
    ("cross-check:azimuthal statistics == Cheng et al. weighted estimators over histories; azimuth-order independence", "cross-check",
     "1-4 azimuths x 3-7 windows, 3 history steps (reject / reselect same size / move an accepted window between azimuths), 3 spellings",
     "hvsrpy.hvsr_azimuthal.HvsrAzimuthal", (40, 800), main_clause),
    ("cross-check:single azimuth == traditional; equal counts == pooled unweighted", "cross-check", "random objects", "hvsrpy.hvsr_azimuthal.HvsrAzimuthal", (15, 300), special_clause),
    ("bounded:a zero sample in an accepted window leaves the other frequencies alone; exactly agreeing windows have standard deviation 0 (and cov diagonal = std^2)", "bounded",
     "1-3 azimuths x 3-6 windows, 2 distributions", "hvsrpy.hvsr_azimuthal.HvsrAzimuthal", (16, 200), degenerate_clause),
    ("bounded:an azimuth without any accepted window is refused, or the numbers reported obey the property (cov diagonal = std^2; one azimuth left = traditional)", "bounded",
     "2-3 azimuths x 3-6 windows, one azimuth emptied, 2 distributions", "hvsrpy.hvsr_azimuthal.HvsrAzimuthal._compute_statistical_weights", (16, 200), emptied_azimuth_clause),
    ("bounded:mask well-formedness under time-domain rejection (F-9 state, azimuthal)", "bounded", "one constructed history", "hvsrpy.window_rejection.sta_lta_window_rejection", (1, 1), known_f9),
]

if __name__ == "__main__":
    run(CLAUSES)
