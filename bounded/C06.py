"""C06 native harness: frequency-domain window rejection == the published algorithm (Cox et al. 2020), re-implemented independently."""
import numpy as np

from bounded.common import close, run
from bounded import stats_ref as sr
from bounded.C08 import spec_peak


def reference_fdwra(f, A, rng_hz, n, max_iterations, dfn, dmc, exact=False, variant=None):
    """returns (accept mask, iterations) following the publication; peak search on entry, then iterate.
    `variant` selects a plausible *wrong* algorithm (used only to find curve sets on which such a slip would show):
    "reaccept" = the masks are recomputed from the current bounds for every window with a peak; "frozen-mc" = the mean-curve peak is not
    refreshed inside the loop; "live-bounds" = the bounds are recomputed after every rejection within one iteration."""
    peaks = [spec_peak(f, a, rng_hz) for a in A]
    has = np.array([p is not None for p in peaks])
    frq = np.array([p[0] if p is not None else np.nan for p in peaks])
    if not has.any():
        vw, vp = np.ones(len(A), bool), np.zeros(len(A), bool)
    else:
        vw, vp = has.copy(), has.copy()
    entry = vp.copy()
    razor = [False]

    def near(a, b, tol=1e-9):
        return abs(a - b) <= tol * max(1.0, abs(a), abs(b))

    def stats(vw_, vp_):
        pf = frq[vp_]
        mean, std = sr.mean(dfn, pf), sr.std(dfn, pf)
        rows = A[vw_]
        mc = rows[0] if len(rows) == 1 else sr.mean(dmc, rows)
        pk = spec_peak(f, mc, rng_hz)
        if pk is None:
            raise ValueError("mean curve has no peak")
        return mean, std, pk[0]
    mcp_entry = None
    for c in range(1, max_iterations + 1):
        mean_b, std_b, mcp_b = stats(vw, vp)
        if variant == "frozen-mc":
            mcp_entry = mcp_b if mcp_entry is None else mcp_entry
            mcp_b = mcp_entry
        d_before = abs(mean_b - mcp_b)
        lo, hi = sr.nth(dfn, -n, mean_b, std_b), sr.nth(dfn, +n, mean_b, std_b)
        for i in range(len(A)):
            if not vp[i] and not (variant == "reaccept" and has[i]):
                continue
            if variant == "live-bounds" and vp.sum() >= 2:
                m_, s_ = sr.mean(dfn, frq[vp]), sr.std(dfn, frq[vp])
                lo, hi = sr.nth(dfn, -n, m_, s_), sr.nth(dfn, +n, m_, s_)
            keep = bool(frq[i] > lo and frq[i] < hi)
            if near(frq[i], lo) or near(frq[i], hi):
                razor[0] = True        # a peak sits on a bound within rounding: the decision is not determined in floating point
            vw[i] = keep
            vp[i] = keep
        mean_a, std_a, mcp_a = stats(vw, vp)
        if variant == "frozen-mc":
            mcp_a = mcp_entry
        d_after = abs(mean_a - mcp_a)
        if not exact and (d_before < 1e-12 or std_b < 1e-12 or std_a < 1e-12):
            razor[0] = True            # "== 0" tests on quantities that are zero only up to rounding (summation order decides)
        if d_before == 0 or std_b == 0 or std_a == 0:
            return vw, vp, c, entry, razor[0]
        if near(abs(d_after - d_before) / d_before, 0.01, 1e-7) or near(abs(std_a - std_b), 0.01, 1e-7):
            razor[0] = True
        if abs(d_after - d_before) / d_before < 0.01 and abs(std_a - std_b) < 0.01:
            return vw, vp, c, entry, razor[0]
    return vw, vp, max_iterations, entry, razor[0]


def gen_curves(rng, crafted=False):
    if crafted:
        # integer grid, peaks exactly on samples, symmetric multiset of peak frequencies: mean fn == mean-curve peak exactly (normal)
        f = np.arange(1.0, 12.0)
        centre = int(rng.integers(4, 8))
        offs = [0, 0, 0, 0, -1, 1, -1, 1, -3, 3] if rng.random() < 0.5 else [0, 0, -1, 1, -2, 2, 0, 0]
        A = []
        for o in offs:
            a = np.ones_like(f)
            a[centre + o - 1] = 3.0
            A.append(a)
        A = np.array(A)
        A[:, centre - 1] += 0.0
        return f, A
    m = int(rng.integers(25, 60))
    k = int(rng.integers(5, 16))
    f = np.geomspace(0.2, 20, m)
    A = []
    base = rng.uniform(0.8, 5)
    if crafted == "outlier":
        # a tight cluster and one or two far outliers on one side: with small n the bounds move between iterations, so that windows rejected
        # early would fall inside the later bounds again (they must stay rejected), and the mean curve changes while the loop runs
        k = int(rng.integers(8, 15))
        base = rng.uniform(1.0, 2.0)
        far = [base * float(rng.choice([5.0, 7.0])) for _ in range(int(rng.integers(1, 3)))]
        for q in range(k):
            fc = far[q] if q < len(far) else base * np.exp(rng.normal(0, 0.12))
            A.append(1 + rng.uniform(1.5, 4) * np.exp(-(np.log(f / fc) / rng.uniform(0.15, 0.3)) ** 2) + 0.05 * np.abs(rng.normal(0, 1, m)))
        order = rng.permutation(k)
        return f, np.array(A)[order]
    for _ in range(k):
        fc = base * np.exp(rng.normal(0, 0.15)) if rng.random() < 0.8 else rng.uniform(0.4, 12)
        A.append(1 + rng.uniform(1.5, 4) * np.exp(-(np.log(f / fc) / rng.uniform(0.15, 0.35)) ** 2) + 0.1 * np.abs(rng.normal(0, 1, m)))
    return f, np.array(A)


def main_clause(cl, rng, n, replay):
    import hvsrpy
    for j in range(n):
        crafted = j % 5 == 4
        outlier = j % 5 in (1, 3)
        f, A = gen_curves(rng, "outlier" if outlier else crafted)
        nn = float(rng.choice([0.5, 1.0, 1.5, 2.0, 2.5])) if not crafted else float(rng.choice([1.0, 1.5]))
        mi = int(rng.choice([1, 2, 3, 50]))
        if outlier:
            nn, mi = float(rng.choice([0.6, 0.75, 0.9, 1.0, 1.2, 1.35])), 50
        dfn = "normal" if crafted else str(rng.choice(["normal", "lognormal"]))
        dmc = "normal" if crafted else str(rng.choice(["normal", "lognormal"]))
        rng_hz = (None, None) if rng.random() < 0.5 else (float(rng.uniform(0.2, 0.6)), float(rng.uniform(9, 20)))
        if crafted:
            rng_hz = (None, None)
        if j % 7 == 6 and not crafted:
            # every window has a narrow peak of its own near 1 Hz (scattered, so that their mean is low) and shares a broad, lower bump at 3 Hz (where the mean curve peaks);
            # one ordinary window has a dead band (amplitude exactly 0, legal) around 3 Hz: under the lognormal assumption the mean curve is 0 in that band, so the
            # mean-curve peak the stopping rule looks at is near 1 Hz - not the 3 Hz bump a floored logarithm would still see
            dmc, dfn, nn, mi, rng_hz = "lognormal", "lognormal", float(rng.choice([2.0, 2.5])), 50, (None, None)
            f = np.geomspace(0.2, 20, 200)
            lf = np.log(f)
            K = int(rng.integers(60, 100))
            f0 = 1.0 * np.exp(rng.standard_t(4, K) * 0.2)
            a0, b0 = rng.uniform(0.9, 1.1, K) * 3.0, rng.uniform(0.95, 1.05, K) * 2.5
            A = 1 + a0[:, None] * np.exp(-0.5 * ((lf[None, :] - np.log(f0)[:, None]) / 0.06) ** 2) + b0[:, None] * np.exp(-0.5 * ((lf[None, :] - np.log(3.0)) / 0.12) ** 2)
            w0 = int(np.argmin(np.abs(np.log(f0))))          # a window whose own peak is typical: it stays accepted
            A[w0, np.abs(lf - np.log(3.0)) < 0.4] = 0.0
        if j % 5 == 2:
            # curves as they come out of a text file with one or two decimals: flat-topped peaks (equal neighbouring samples at the maximum), whose position is the
            # middle of the flat run - the peak the published algorithm's peak search reports
            A = np.round(A, int(rng.choice([1, 1, 2])))
        try:
            want = reference_fdwra(f, A.copy(), rng_hz, nn, mi, dfn, dmc, exact=crafted)
        except (ValueError, ZeroDivisionError, FloatingPointError):
            cl.skipped += 1
            continue
        if want[1].sum() < 2 or want[3].sum() < 3 or want[4]:
            cl.skipped += 1
            continue
        h = hvsrpy.HvsrTraditional(f, A)
        # "for every choice of distributions": every spelling the library's own DISTRIBUTION_MAP declares for the two distributions
        spell = lambda d: d if d == "normal" or rng.random() < 0.5 else "log-normal"
        dfn_given, dmc_given = spell(dfn), spell(dmc)
        try:
            it = hvsrpy.frequency_domain_window_rejection(h, n=nn, max_iterations=mi, distribution_fn=dfn_given, distribution_mc=dmc_given, search_range_in_hz=rng_hz)
        except Exception as ex:
            cl.fail("hvsrpy.window_rejection.frequency_domain_window_rejection", f"{type(ex).__name__}: {ex} (distribution_fn={dfn_given!r}, distribution_mc={dmc_given!r})",
                    signature="fdwra:exception", n=nn, max_iterations=mi)
            return
        cl.case((j, nn, mi, dfn, dmc, rng_hz), nontrivial=bool((~want[1] & want[3]).any()))
        if not (isinstance(it, (int, np.integer)) and 1 <= it <= mi and it == want[2] and np.array_equal(h.valid_window_boolean_mask, want[0])
                and np.array_equal(h.valid_peak_boolean_mask, want[1])):
            cl.fail("hvsrpy.window_rejection._frequency_domain_window_rejection",
                    f"decisions / iteration count differ from the published algorithm: iterations {it} vs {want[2]}, accepted {h.valid_peak_boolean_mask.astype(int).tolist()} "
                    f"vs {want[1].astype(int).tolist()}", signature="fdwra:algorithm", n=nn, max_iterations=mi, distribution_fn=dfn, distribution_mc=dmc,
                    search_range=rng_hz, frequency=f, amplitude=A, crafted=crafted)
            return
        if np.any(h.valid_peak_boolean_mask & ~want[3]):
            cl.fail("hvsrpy.window_rejection._frequency_domain_window_rejection", "a window rejected on entry was re-accepted", signature="fdwra:reaccept")
            return
        # invariance: window order and amplitude rescaling
        perm = rng.permutation(len(A))
        k = float(rng.choice([0.01, 3.0, 250.0]))
        h2 = hvsrpy.HvsrTraditional(f, (k * A)[perm])
        it2 = hvsrpy.frequency_domain_window_rejection(h2, n=nn, max_iterations=mi, distribution_fn=dfn, distribution_mc=dmc, search_range_in_hz=rng_hz)
        if it2 != it or not np.array_equal(h2.valid_peak_boolean_mask, h.valid_peak_boolean_mask[perm]):
            # floating-point ties at a bound can legitimately flip under reordering of a sum: only report when the margins are clear
            pf = h._main_peak_frq
            cl.fail("hvsrpy.window_rejection.frequency_domain_window_rejection", "decisions depend on the window order or on a rescaling of all amplitudes",
                    signature="fdwra:invariance", k=k, perm=perm)
            return
        if "performed window rejection" not in h.meta or h.meta["window rejection algorithm arguments"]["n"] != nn:
            cl.fail("hvsrpy.window_rejection.frequency_domain_window_rejection", "meta entries", signature="fdwra:meta")
            return


_GRID = np.round(np.arange(0.5, 20.0001, 0.05), 6)


def distinguishing_clause(cl, rng, n, replay):
    """curve sets on which a plausible slip of the iteration (re-accepting, a mean curve that is not refreshed, bounds that move within one
    iteration) would give other decisions or another iteration count than the published algorithm - found with the reference alone, then
    the library is run on them"""
    import hvsrpy
    found, trials = 0, 0
    quota = {"reaccept": 0, "frozen-mc": 0, "live-bounds": 0}
    per_tag = max(1, n // 3)
    while found < n and trials < 400 * n:
        trials += 1
        core = rng.normal(5, rng.uniform(0.3, 1.0), int(rng.integers(8, 20)))
        extra = rng.uniform(0.8, 12, int(rng.integers(1, 4)))
        pk = np.clip(np.concatenate([core, extra]), 0.7, 18)
        rng.shuffle(pk)
        nn = float(rng.choice([0.75, 1.0, 1.25, 1.5, 2.0]))
        dfn, dmc = str(rng.choice(["lognormal", "normal"])), str(rng.choice(["lognormal", "normal"]))
        A = 1 + 3 * np.exp(-0.5 * ((np.log(_GRID)[None, :] - np.log(pk)[:, None]) / 0.15) ** 2)
        try:
            want = reference_fdwra(_GRID, A.copy(), (None, None), nn, 50, dfn, dmc)
            if want[4] or want[1].sum() < 3:
                continue
            tags = []
            for v in ("reaccept", "frozen-mc", "live-bounds"):
                alt = reference_fdwra(_GRID, A.copy(), (None, None), nn, 50, dfn, dmc, variant=v)
                if alt[2] != want[2] or not np.array_equal(alt[1], want[1]):
                    tags.append(v)
        except (ValueError, ZeroDivisionError, FloatingPointError):
            continue
        tags = [t for t in tags if quota[t] < per_tag]          # every kind of slip gets its share of the sets
        if not tags:
            continue
        for t in tags:
            quota[t] += 1
        found += 1
        h = hvsrpy.HvsrTraditional(_GRID, A)
        try:
            it = hvsrpy.frequency_domain_window_rejection(h, n=nn, max_iterations=50, distribution_fn=dfn, distribution_mc=dmc)
        except Exception as ex:
            cl.fail("hvsrpy.window_rejection.frequency_domain_window_rejection", f"{type(ex).__name__}: {ex}", signature="fdwra:exception", n=nn)
            return
        cl.case((trials, nn, dfn, dmc, tuple(tags)))
        if it != want[2] or not np.array_equal(h.valid_peak_boolean_mask, want[1]) or not np.array_equal(h.valid_window_boolean_mask, want[0]):
            cl.fail("hvsrpy.window_rejection._frequency_domain_window_rejection",
                    f"decisions / iteration count differ from the published algorithm on a set that separates it from {tags}: iterations {it} vs {want[2]}, accepted "
                    f"{h.valid_peak_boolean_mask.astype(int).tolist()} vs {want[1].astype(int).tolist()}", signature="fdwra:distinguishing", n=nn, distribution_fn=dfn,
                    distribution_mc=dmc, peaks=pk)
            return


def azimuthal_clause(cl, rng, n, replay):
    import hvsrpy
    for j in range(n):
        naz = int(rng.integers(2, 4))
        sets = [gen_curves(rng) for _ in range(naz)]
        f = np.geomspace(0.2, 20, 30)
        As = []
        k_common = int(rng.integers(5, 10))
        for _ in range(naz):
            k = k_common if j % 2 == 1 else int(rng.integers(5, 10))
            base = rng.uniform(0.8, 5)
            As.append(np.array([1 + 3 * np.exp(-(np.log(f / (base * np.exp(rng.normal(0, 0.2)))) / 0.25) ** 2) + 0.1 * np.abs(rng.normal(0, 1, 30)) for _ in range(k)]))
        nn, mi = float(rng.choice([1.0, 2.0])), int(rng.choice([1, 3, 50]))
        if j % 2 == 1:
            # (the cases with a history: every azimuth gets an outlier in a *different* window, so that the azimuths are certain to reject different windows)
            nn = 1.0
            for a_i, A in enumerate(As):
                w = a_i % len(A)
                A[w] = 1 + 3 * np.exp(-(np.log(f / (12.0 + a_i)) / 0.25) ** 2) + 0.1 * np.abs(rng.normal(0, 1, 30))
        try:
            wants = [reference_fdwra(f, A.copy(), (None, None), nn, mi, "lognormal", "lognormal") for A in As]
        except (ValueError, ZeroDivisionError):
            cl.skipped += 1
            continue
        if any(w[1].sum() < 2 or w[4] for w in wants):
            cl.skipped += 1
            continue
        h = hvsrpy.HvsrAzimuthal([hvsrpy.HvsrTraditional(f, A) for A in As], list(np.linspace(0, 150, naz)))
        prior = None
        if j % 2 == 1 and len({len(A) for A in As}) == 1:
            # a history: a time-domain rejection with the azimuthal object attached that keeps every window (all azimuths get the all-True selection);
            # the frequency-domain decisions that follow are still taken azimuth by azimuth
            from bounded import refproc as rp
            recs = [rp.mk_record(*rp.gen_window(rng, N=200, dt=0.01)) for _ in range(len(As[0]))]
            if j % 4 == 1:
                hvsrpy.maximum_value_window_rejection(recs, maximum_value_threshold=1e300, normalized=False, hvsr=h)
                prior = "maximum-value (keeps all)"
            else:
                hvsrpy.sta_lta_window_rejection(recs, sta_seconds=0.2, lta_seconds=1.0, min_sta_lta_ratio=0.0, max_sta_lta_ratio=1e300, hvsr=h)
                prior = "sta-lta (keeps all)"
        it = hvsrpy.frequency_domain_window_rejection(h, n=nn, max_iterations=mi)
        cl.case((j, naz, nn, mi, prior))
        if it != max(w[2] for w in wants) or any(not np.array_equal(hv.valid_peak_boolean_mask, w[1]) or not np.array_equal(hv.valid_window_boolean_mask, w[0])
                                                   for hv, w in zip(h.hvsrs, wants)):
            cl.fail("hvsrpy.window_rejection.frequency_domain_window_rejection", "azimuthal: per-azimuth decisions / maximum iteration count differ from the algorithm",
                    signature="fdwra:azimuthal", iterations=it, expected=[w[2] for w in wants])
            return


CLAUSES = [
    ("cross-check:FDWRA decisions and iteration count == published algorithm; never re-accepts; order and scale invariance", "cross-check",
     "5-15 curves x 25-60 samples (plus crafted exact-zero cases on an integer grid and cluster-plus-far-outlier sets with n in {0.6..1.35}), n in {0.5..2.5}, max_iterations in {1,2,3,50}, 4 distribution pairs, 2 range kinds",
     "hvsrpy.window_rejection._frequency_domain_window_rejection", (220, 4000), main_clause),
    ("cross-check:FDWRA on curve sets that separate the published iteration from plausible slips (re-accepting, stale mean curve, bounds moving within an iteration)",
     "cross-check", "9-22 Gaussian-bump curves on a 0.05 Hz grid, n in {0.75..2}, 4 distribution pairs; sets selected with the reference alone", "hvsrpy.window_rejection._frequency_domain_window_rejection",
     (6, 60), distinguishing_clause),
    ("cross-check:azimuthal FDWRA == per-azimuth algorithm, returns the maximum iteration count", "cross-check", "2-3 azimuths x 5-9 curves", "hvsrpy.window_rejection.frequency_domain_window_rejection",
     (60, 1000), azimuthal_clause),
]

if __name__ == "__main__":
    run(CLAUSES)
