"""C05 native harness: every statistic == textbook estimator over exactly the accepted windows, after any history."""
import numpy as np

from bounded.common import close, run
from bounded import stats_ref as sr
from bounded.C08 import spec_peak

DISTS = ["normal", "log-normal", "lognormal"]


def gen_object(rng, k=None, m=None):
    import hvsrpy
    k = int(k or rng.integers(4, 12))
    m = int(m or rng.integers(20, 50))
    f = np.geomspace(0.2, 20, m)
    A = []
    for _ in range(k):
        fc = rng.uniform(0.6, 8)
        a = 1 + rng.uniform(1, 4) * np.exp(-(np.log(f / fc) / rng.uniform(0.15, 0.4)) ** 2) + 0.15 * np.abs(rng.normal(0, 1, m))
        if rng.random() < 0.12:
            a = np.linspace(rng.uniform(2, 4), 1, m) + 0.0           # monotone: no peak anywhere
        A.append(a)
    A = np.array(A)
    return hvsrpy.HvsrTraditional(f, A), f, A


def apply_history(rng, h, f, steps=None):
    """random sequence of peak-range updates, automatic and manual rejections; returns a description"""
    import hvsrpy
    hist = []
    for _ in range(int(steps if steps is not None else rng.integers(0, 5))):
        op = rng.integers(0, 6)
        if op == 5:
            # a time-domain rejection with the object attached (the library's own way of installing a selection).  Only when every window has a peak, so that the
            # state stays well formed (the ill-formed state is known finding F-9, exercised in its own clause).  The selection expected is the one the
            # function itself reports through the recordings it returns; the masks must *be* that selection, as booleans.
            from bounded import refproc as rp
            k = len(h.valid_window_boolean_mask)
            if np.isnan(h._main_peak_frq).any() or k < 5:
                continue
            recs = []
            for w in range(k):
                ns, ew, vt, dt_ = rp.gen_window(rng, N=400, dt=0.01)[:4]
                if rng.random() < 0.35:
                    for c in (ns, ew, vt):
                        c[180:200] *= 60.0           # a burst: the STA/LTA ratio and the peak amplitude of this window stand out
                recs.append(rp.mk_record(ns, ew, vt, dt_))
            if rng.random() < 0.5:
                kept = hvsrpy.sta_lta_window_rejection(recs, sta_seconds=0.2, lta_seconds=2, min_sta_lta_ratio=0.1, max_sta_lta_ratio=4.0, hvsr=h)
                name = "sta-lta"
            else:
                kept = hvsrpy.maximum_value_window_rejection(recs, maximum_value_threshold=0.5, normalized=True, hvsr=h)
                name = "maximum-value"
            sel = np.array([any(r is q for q in kept) for r in recs])
            if sel.sum() < 3:
                # too few windows left for statistics: put a well-formed selection back
                h.valid_window_boolean_mask = np.ones(k, dtype=bool)
                h.valid_peak_boolean_mask = np.ones(k, dtype=bool)
                hist.append((name + " left fewer than three windows: all accepted again",))
                continue
            hist.append((name, sel.astype(int).tolist()))
            h._expected_selection = sel
            continue
        if op == 0:
            lo = None if rng.random() < 0.4 else float(rng.uniform(0.2, 2))
            hi = None if rng.random() < 0.4 else float(rng.uniform(3, 20))
            h.update_peaks_bounded(search_range_in_hz=(lo, hi))
            hist.append(("range", lo, hi))
        elif op == 1:
            if np.sum(h.valid_peak_boolean_mask) >= 4:
                n = float(rng.choice([1.5, 2.0, 2.5]))
                dfn, dmc = str(rng.choice(["normal", "lognormal"])), str(rng.choice(["normal", "lognormal"]))
                try:
                    hvsrpy.frequency_domain_window_rejection(h, n=n, max_iterations=int(rng.integers(1, 6)), distribution_fn=dfn, distribution_mc=dmc,
                                                             search_range_in_hz=h._search_range_in_hz, find_peaks_kwargs=h._find_peaks_kwargs or None)
                    hist.append(("fdwra", n, dfn, dmc))
                except ValueError:
                    hist.append(("fdwra-no-peak",))
        elif op == 2:
            # manual rejection: what manual_window_rejection does to the windows picked in the drawn box
            idx = rng.integers(0, len(h.valid_window_boolean_mask))
            if np.sum(h.valid_peak_boolean_mask) > 3:
                h.valid_window_boolean_mask[idx] = False
                h.valid_peak_boolean_mask[idx] = False
                hist.append(("manual", int(idx)))
        elif op == 4:
            # a different selection of the same size (e.g. a second time-domain rejection with other parameters)
            has = ~np.isnan(h._main_peak_frq)
            cur = h.valid_window_boolean_mask & has
            k = int(cur.sum())
            if 3 <= k < has.sum():
                idx = np.flatnonzero(has)
                sel = np.zeros_like(cur)
                sel[rng.choice(idx, size=k, replace=False)] = True
                h.valid_window_boolean_mask = np.array(sel)
                h.valid_peak_boolean_mask = np.array(sel)
                hist.append(("replace-masks-same-size", sel.tolist()))
        else:
            # replace the masks wholesale with a selection (what the time-domain algorithms do), restricted to windows that have a
            # peak so that the state is well formed (the ill-formed state is known finding F-9, exercised in its own clause)
            sel = (rng.random(len(h.valid_window_boolean_mask)) < 0.75) & ~np.isnan(h._main_peak_frq)
            if sel.sum() >= 3:
                h.valid_window_boolean_mask = np.array(sel)
                h.valid_peak_boolean_mask = np.array(sel)
                hist.append(("replace-masks", sel.tolist()))
    return hist


def check_stats(cl, h, f, A, fn, hist):
    # the accepted windows: where the mask is True.  The masks are read as truth values here, whatever array type they have - a statistic that takes an
    # integer 0/1 mask for a list of positions is computed from other windows
    vw, vp = np.asarray(h.valid_window_boolean_mask).astype(bool), np.asarray(h.valid_peak_boolean_mask).astype(bool)
    if hist and hist[-1][0] in ("sta-lta", "maximum-value"):
        sel = np.array(hist[-1][1], dtype=bool)
        if not (np.array_equal(vw, sel) and np.array_equal(vp, sel)):
            cl.fail("hvsrpy.window_rejection." + ("sta_lta_window_rejection" if hist[-1][0] == "sta-lta" else "maximum_value_window_rejection"),
                    f"after the rejection the masks of the attached object are not the selection returned (windows {vw.astype(int).tolist()}, peaks {vp.astype(int).tolist()}, "
                    f"selection {sel.astype(int).tolist()})", signature="stat:masks-after-time-domain", history=hist)
            return False
    pf, pa = h._main_peak_frq[vp], h._main_peak_amp[vp]
    rows = A[vw]
    snap = (h.amplitude.copy(), vw.copy(), vp.copy(), h._main_peak_frq.copy(), h._main_peak_amp.copy())
    for dist in ["lognormal"] + DISTS:      # the first and the last request use the same spelling (history-dependent caches)
        sig = f"stat:{dist}"
        try:
            if len(pf) >= 2:
                checks = [
                    ("mean_fn_frequency", h.mean_fn_frequency(dist), sr.mean(dist, pf)),
                    ("mean_fn_amplitude", h.mean_fn_amplitude(dist), sr.mean(dist, pa)),
                    ("std_fn_frequency", h.std_fn_frequency(dist), sr.std(dist, pf)),
                    ("std_fn_amplitude", h.std_fn_amplitude(dist), sr.std(dist, pa)),
                    ("cov_fn", h.cov_fn(dist), sr.cov(dist, pf, pa)),
                ]
                for n in (-2, -1, 1, 2.5):
                    checks.append((f"nth_std_fn_frequency({n})", h.nth_std_fn_frequency(n, dist), sr.nth(dist, n, sr.mean(dist, pf), sr.std(dist, pf))))
                    checks.append((f"nth_std_fn_amplitude({n})", h.nth_std_fn_amplitude(n, dist), sr.nth(dist, n, sr.mean(dist, pa), sr.std(dist, pa))))
            else:
                checks = []
            if len(rows) >= 2:
                mc, sc = sr.mean(dist, rows), sr.std(dist, rows)
                checks += [("mean_curve", h.mean_curve(dist), mc), ("std_curve", h.std_curve(dist), sc),
                           ("nth_std_curve(+1)", h.nth_std_curve(1, dist), sr.nth(dist, 1, mc, sc)),
                           ("nth_std_curve(-1)", h.nth_std_curve(-1, dist), sr.nth(dist, -1, mc, sc))]
                want = spec_peak(f, mc, h._search_range_in_hz)
                try:
                    got = h.mean_curve_peak(dist)
                    okp = want is not None and close(got[0], want[0], 1e-12) and close(got[1], want[1], 1e-9)
                except ValueError:
                    okp = want is None
                if not okp:
                    cl.fail(fn, f"mean_curve_peak({dist}) is not the peak of the mean curve of the accepted windows in the stored range", signature=sig + ":mcpeak", history=hist)
                    return False
            elif len(rows) == 1:
                checks += [("mean_curve(single)", h.mean_curve(dist), rows[0])]
            for name, got, want in checks:
                g_, w_ = np.asarray(got, dtype=float), np.asarray(want, dtype=float)
                if g_.shape == w_.shape and not np.all(np.isfinite(w_)):
                    # where the estimator is not a finite number (the log-standard deviation of a sample that contains a zero, and what is derived from it) nothing is
                    # promised; everywhere else - the geometric mean, which is 0 there, included - the values are compared
                    fin = np.isfinite(w_)
                    ok_ = bool(close(g_[fin], w_[fin], 1e-9, 1e-12))
                else:
                    ok_ = close(got, want, 1e-9, 1e-12)
                if not ok_:
                    cl.fail(fn, f"{name} [{dist}] = {np.asarray(got).ravel()[:4]} differs from the textbook estimator over the accepted windows {np.asarray(want).ravel()[:4]}",
                            signature=sig + ":" + name.split("(")[0], history=hist, n_accepted_peaks=int(len(pf)), n_accepted_windows=int(len(rows)))
                    return False
            # lognormal: frequency/period consistency and symmetry
            if sr.CANON[dist] == "lognormal" and len(pf) >= 2:
                med, s = h.mean_fn_frequency(dist), h.std_fn_frequency(dist)
                if not (close(1 / med, sr.mean(dist, 1 / pf), 1e-9) and close(s, sr.std(dist, 1 / pf), 1e-9)
                        and close(np.log(h.nth_std_fn_frequency(2, dist)) - np.log(med), -(np.log(h.nth_std_fn_frequency(-2, dist)) - np.log(med)), 1e-9, 1e-12)):
                    cl.fail(fn, "lognormal frequency/period consistency or +-n symmetry", signature=sig + ":reciprocal", history=hist)
                    return False
        except Exception as ex:
            cl.fail(fn, f"{type(ex).__name__}: {ex} while evaluating statistics [{dist}]", signature=sig + ":exception", history=hist)
            return False
    # accessors are read-only
    if not (np.array_equal(snap[0], h.amplitude) and np.array_equal(snap[1], h.valid_window_boolean_mask) and np.array_equal(snap[2], h.valid_peak_boolean_mask)
            and np.array_equal(snap[3], h._main_peak_frq, equal_nan=True) and np.array_equal(snap[4], h._main_peak_amp, equal_nan=True)):
        cl.fail(fn, "a statistics accessor modified the object", signature="stat:frame", history=hist)
        return False
    return True


def history_clause(cl, rng, n, replay):
    import hvsrpy
    for j in range(n):
        h, f, A = gen_object(rng)
        hist = []
        if j % 6 == 5:
            # a sample that is exactly 0 in one window (legal: amplitudes are >= 0), far below every peak: the geometric mean is 0 there, the log-standard deviation not finite,
            # and the window counts in the n - 1 denominator like every other accepted window
            import hvsrpy as _hv
            A = A.copy()
            A[int(rng.integers(0, len(A))), int(rng.integers(0, 2))] = 0.0
            h = _hv.HvsrTraditional(f, A)
            hist.append(("zero-sample",))
        if j % 4 == 1:
            # peak-finding options handed over in a dictionary the caller keeps and edits: the second search is made with the values the dictionary holds *then*
            from scipy.signal import find_peaks
            kw = {"prominence": 0.02}
            h.update_peaks_bounded(search_range_in_hz=(None, None), find_peaks_kwargs=kw)
            kw["prominence"] = float(rng.choice([0.8, 1.5, 2.5]))
            h.update_peaks_bounded(search_range_in_hz=(None, None), find_peaks_kwargs=kw)
            hist.append(("find_peaks_kwargs edited in the caller's dictionary", dict(kw)))
            for i, row in enumerate(A):
                pk, _ = find_peaks(row, prominence=kw["prominence"])
                want = None if len(pk) == 0 else float(f[pk[np.argmax(row[pk])]])
                got = h._main_peak_frq[i]
                if (want is None) != bool(np.isnan(got)) or (want is not None and got != want) or bool(h.valid_peak_boolean_mask[i]) != (want is not None):
                    cl.fail("hvsrpy.hvsr_traditional.HvsrTraditional.update_peaks_bounded", f"window {i}: after the caller raised the prominence in the dictionary it had handed over and "
                            f"searched again, the stored peak ({got}) / mask ({bool(h.valid_peak_boolean_mask[i])}) is not that of the new options ({want})",
                            signature="stat:kwargs-alias", history=hist)
                    return
            # back to the default options for the histories below (their oracle is the plain local-maximum rule)
            h.update_peaks_bounded(search_range_in_hz=(None, None), find_peaks_kwargs=None)
            hist.append(("range", None, None))
        for rounds in range(3):
            hist += apply_history(rng, h, f, steps=int(rng.integers(0, 3)))
            cl.case((j, rounds, tuple(map(str, hist))), nontrivial=len(hist) > 0)
            if hist and hist[-1][0] == "range":
                # a peak search re-accepts: afterwards exactly the windows with a peak in the range are accepted, with their peaks (all windows
                # stay accepted when none has a peak) - "the accepted windows" is one notion for curves and for peaks
                has = ~np.isnan(h._main_peak_frq)
                ok = np.array_equal(h.valid_peak_boolean_mask, has) and (np.array_equal(h.valid_window_boolean_mask, has) if has.any() else h.valid_window_boolean_mask.all())
                if not ok:
                    cl.fail("hvsrpy.hvsr_traditional.HvsrTraditional.update_peaks_bounded", "after a peak-range update the accepted windows and the accepted peaks are different sets "
                            f"(windows {h.valid_window_boolean_mask.astype(int).tolist()}, peaks {h.valid_peak_boolean_mask.astype(int).tolist()}, has a peak {has.astype(int).tolist()})",
                            signature="stat:masks-after-range", history=hist)
                    return
            if not check_stats(cl, h, f, A, "hvsrpy.hvsr_traditional.HvsrTraditional", list(hist)):
                return
            # identical to an object built from the accepted windows alone
            vw = h.valid_window_boolean_mask
            if vw.sum() >= 2 and np.array_equal(vw, h.valid_peak_boolean_mask):
                h2 = hvsrpy.HvsrTraditional(f, A[vw])
                h2.update_peaks_bounded(search_range_in_hz=h._search_range_in_hz)
                for dist in ("normal", "lognormal"):
                    pairs = [(h.mean_curve(dist), h2.mean_curve(dist)), (h.std_curve(dist), h2.std_curve(dist))]
                    if h2.valid_peak_boolean_mask.all() and vw.sum() >= 2:
                        pairs += [(h.mean_fn_frequency(dist), h2.mean_fn_frequency(dist)), (h.std_fn_amplitude(dist), h2.std_fn_amplitude(dist)),
                                  (h.cov_fn(dist), h2.cov_fn(dist))]
                    if not all(close(a, b, 1e-10) for a, b in pairs):
                        cl.fail("hvsrpy.hvsr_traditional.HvsrTraditional", "statistics differ from those of an object built from the accepted windows alone",
                                signature="stat:accepted-only", history=hist)
                        return


def known_f9_clause(cl, rng, n, replay):
    """well-formedness (valid_peak => the window has a peak) is not preserved by the time-domain rejections: known finding F-9"""
    import hvsrpy
    from bounded import refproc as rp
    f = np.geomspace(0.2, 20, 30)
    A = np.array([1 + 3 * np.exp(-(np.log(f / fc) / 0.3) ** 2) for fc in (1.0, 1.2, 0.9, 1.1)] + [np.linspace(4, 1, 30)])
    h = hvsrpy.HvsrTraditional(f, A)
    recs = [rp.mk_record(*rp.gen_window(np.random.default_rng(5), N=400, dt=0.01)) for _ in range(5)]
    hvsrpy.sta_lta_window_rejection(recs, sta_seconds=0.2, lta_seconds=2, min_sta_lta_ratio=0.01, max_sta_lta_ratio=100., hvsr=h)
    cl.case("F-9")
    cl.case("F-9b")
    bad = bool(np.any(h.valid_peak_boolean_mask & np.isnan(h._main_peak_frq)))
    if bad:
        cl.fail("hvsrpy.window_rejection.sta_lta_window_rejection",
                "after sta_lta_window_rejection(..., hvsr=h) a window without a peak has valid_peak=True; cov_fn = "
                f"{hvsrpy.HvsrTraditional.cov_fn(h, 'lognormal').ravel().tolist()}", signature="F-9:wf-preservation:valid_peak-without-peak")


def peakless_accepted_clause(cl, rng, n, replay):
    """an accepted window without a peak in the range (the state F-9 describes, also reachable by setting the masks by hand or from a file)
    contributes nothing to the fn statistics: mean / std / n-th std are those of the accepted windows that have a peak.  (cov_fn in this
    state is the known finding F-9 and is not examined here.)"""
    for j in range(n):
        h, f, A = gen_object(rng, k=int(rng.integers(6, 12)))
        lo = float(rng.uniform(0.2, 1.0))
        h.update_peaks_bounded(search_range_in_hz=(lo, float(rng.uniform(4, 20))))
        nopeak = np.isnan(h._main_peak_frq)
        if nopeak.sum() == 0 or (~nopeak).sum() < 3:
            # force one: flatten a curve's peak state by hand (what a file or a time-domain rejection can install)
            idx = int(rng.integers(0, len(nopeak)))
            h._main_peak_frq[idx] = np.nan
            h._main_peak_amp[idx] = np.nan
            nopeak = np.isnan(h._main_peak_frq)
            if (~nopeak).sum() < 3:
                cl.skipped += 1
                continue
        h.valid_window_boolean_mask = np.ones(len(nopeak), dtype=bool)
        h.valid_peak_boolean_mask = np.ones(len(nopeak), dtype=bool)
        cl.case((j, int(nopeak.sum())))
        pf, pa = h._main_peak_frq[~nopeak], h._main_peak_amp[~nopeak]
        for dist in DISTS:
            checks = [("mean_fn_frequency", h.mean_fn_frequency(dist), sr.mean(dist, pf)), ("mean_fn_amplitude", h.mean_fn_amplitude(dist), sr.mean(dist, pa)),
                      ("std_fn_frequency", h.std_fn_frequency(dist), sr.std(dist, pf)), ("std_fn_amplitude", h.std_fn_amplitude(dist), sr.std(dist, pa)),
                      ("nth_std_fn_frequency(1)", h.nth_std_fn_frequency(1, dist), sr.nth(dist, 1, sr.mean(dist, pf), sr.std(dist, pf)))]
            for name, got, want in checks:
                if not close(got, want, 1e-9, 1e-12):
                    cl.fail("hvsrpy.statistics._nanmean_weighted", f"{name} [{dist}] = {got} with {int(nopeak.sum())} accepted peak-less window(s); the accepted windows that have a peak give {want}",
                            signature="stat:peakless-accepted:" + name.split("(")[0])
                    return


def per_azimuth_clause(cl, rng, n, replay):
    """the curve sets held by an azimuthal result - one HvsrTraditional per azimuth - after a time-domain rejection with the azimuthal result attached: each of them is a set of
    HVSR curves whose statistics are over its accepted windows only, and the accepted windows are the selection the rejection returned"""
    import hvsrpy
    from bounded import refproc as rp
    for j in range(n):
        k, m, naz = int(rng.integers(5, 10)), int(rng.integers(20, 40)), int(rng.integers(2, 4))
        f = np.geomspace(0.2, 20, m)
        As = [np.array([1 + rng.uniform(1, 4) * np.exp(-(np.log(f / rng.uniform(0.6, 8)) / rng.uniform(0.15, 0.4)) ** 2) + 0.15 * np.abs(rng.normal(0, 1, m)) for _ in range(k)])
              for _ in range(naz)]
        az = hvsrpy.HvsrAzimuthal([hvsrpy.HvsrTraditional(f, A) for A in As], list(np.linspace(0, 120, naz)))
        if any(np.isnan(hv._main_peak_frq).any() for hv in az.hvsrs):
            cl.skipped += 1          # a window without a peak: the ill-formed state of known finding F-9 (its own clause)
            continue
        recs = []
        for w in range(k):
            ns, ew, vt, dt_ = rp.gen_window(rng, N=400, dt=0.01)[:4]
            if w == 1 or rng.random() < 0.3:
                for c in (ns, ew, vt):
                    c[180:200] *= 60.0
            recs.append(rp.mk_record(ns, ew, vt, dt_))
        if j % 2:
            kept = hvsrpy.sta_lta_window_rejection(recs, sta_seconds=0.2, lta_seconds=2, min_sta_lta_ratio=0.1, max_sta_lta_ratio=4.0, hvsr=az)
            name = "sta-lta"
        else:
            kept = hvsrpy.maximum_value_window_rejection(recs, maximum_value_threshold=0.5, normalized=True, hvsr=az)
            name = "maximum-value"
        sel = np.array([any(r is q for q in kept) for r in recs])
        cl.case((j, k, m, naz, name), nontrivial=bool((~sel).any()))
        if sel.sum() < 3:
            continue
        for a, (hv, A) in enumerate(zip(az.hvsrs, As)):
            if not check_stats(cl, hv, f, A, "hvsrpy.hvsr_traditional.HvsrTraditional", [("azimuth", a), (name, sel.astype(int).tolist())]):
                return


CLAUSES = [
    ("cross-check:every statistic == textbook estimator over the accepted windows after random histories (range updates, FDWRA, manual, mask replacement)", "cross-check",
     "4-11 windows x 20-50 samples (some peak-less), up to 6 history steps, 3 distribution spellings", "hvsrpy.hvsr_traditional.HvsrTraditional", (60, 1500), history_clause),
    ("bounded:fn statistics ignore accepted windows that have no peak in the range", "bounded", "6-11 windows, 1+ peak-less accepted window, 3 distribution spellings",
     "hvsrpy.statistics._nanmean_weighted", (20, 300), peakless_accepted_clause),
    ("bounded:the per-azimuth curve sets of an azimuthal result after a time-domain rejection: statistics over the windows the rejection kept", "bounded",
     "2-3 azimuths x 5-9 windows x 20-39 samples, STA/LTA and maximum-value rejection", "hvsrpy.window_rejection.maximum_value_window_rejection", (20, 200), per_azimuth_clause),
    ("bounded:well-formedness of the masks is preserved by every mutator (F-9 state)", "bounded", "one constructed history", "hvsrpy.window_rejection.sta_lta_window_rejection", (1, 1), known_f9_clause),
]

if __name__ == "__main__":
    run(CLAUSES)
