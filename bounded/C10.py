"""C10 native harness: split tiling (executable form of the TimeSeries.split contract) and the order of the preprocessing steps."""
from fractions import Fraction

import numpy as np
from scipy.signal import butter, sosfiltfilt, detrend

from bounded.common import close, run
from bounded import refproc as rp


def spec_k(L, fs=None, dt=None):
    """admissible numbers of whole sample intervals (set) for window length L at nominal sampling rate fs (or stored dt)."""
    if fs is not None:
        q = Fraction(L).limit_denominator(10 ** 9) * Fraction(fs).limit_denominator(10 ** 9)
    else:
        q = Fraction(L) / Fraction(dt)
    m = round(q)
    if m >= 1 and abs(q - m) <= Fraction(m, 2 ** 50) * 4:
        return {int(m)}
    fl = q.numerator // q.denominator
    if q - fl >= Fraction(2, 10 ** 6) and (fl + 1) - q >= Fraction(2, 10 ** 6):
        return {int(fl)}
    return {int(fl), int(fl) + 1}


def split_clause(cl, rng, n, replay):
    import hvsrpy
    rates = [75, 150, 300, 100, 128, 250, 50, 1000, 40, 200, 512, 125, 60, 48000 / 480]
    for j in range(n):
        fs = float(rates[j % len(rates)])
        dt = 1 / fs
        mode = rng.integers(0, 3)
        if mode == 0:
            L = float(rng.integers(1, 8))                       # whole seconds: exact multiple of the nominal step
        elif mode == 1:
            L = float(rng.integers(1, 400)) / fs                # multiple of the step, computed in floating point
        else:
            L = float(rng.uniform(3.2, 40.7)) / fs              # arbitrary
        ks = spec_k(L, fs=fs) if mode < 2 else spec_k(L, dt=dt)
        N = int(rng.integers(1, 12 * max(ks) + 5))
        x = rng.normal(0, 1, N)
        ts = hvsrpy.TimeSeries(x, dt)
        x0 = x.copy()
        try:
            wins = ts.split(L)
            raised = False
        except ValueError:
            raised = True
        cl.case((fs, L, N, mode))
        ok = False
        for k in ks:
            if k < 1:
                continue
            if N < k:
                ok |= raised
                continue
            if raised:
                continue
            W = N // k
            good = len(wins) == W
            for i, w in enumerate(wins if good else []):
                want = x0[i * k: min(i * k + k + 1, N)]
                good &= w.n_samples == len(want) and np.array_equal(w.amplitude, want) and w.dt_in_seconds == dt
                good &= not np.shares_memory(w.amplitude, ts.amplitude)
            good &= N - W * k < k
            ok |= good
        if not np.array_equal(ts.amplitude, x0):
            cl.fail("hvsrpy.timeseries.TimeSeries.split", "split modified the record", signature="split:frame")
            return
        if not ok:
            cl.fail("hvsrpy.timeseries.TimeSeries.split", f"fs={fs} Hz, window {L} s, {N} samples: windows do not tile the record with k in {sorted(ks)} "
                    f"whole sample intervals (k+1 samples each, boundary sample shared, tail < k, ValueError iff N < k)", signature="split:tiling",
                    fs=fs, window_length=L, n_samples=N, raised=raised, n_windows=(None if raised else len(wins)),
                    window_sizes=(None if raised else [w.n_samples for w in wins][:6]))
            return


def _ref_filter(x, corners, dt, order=5):
    lo, hi = corners
    if lo is None and hi is None:
        return np.array(x, dtype=float)
    if lo is None:
        sos = butter(order, hi, "lowpass", fs=1 / dt, output="sos")
    elif hi is None:
        sos = butter(order, lo, "highpass", fs=1 / dt, output="sos")
    else:
        sos = butter(order, [lo, hi], "bandpass", fs=1 / dt, output="sos")
    return sosfiltfilt(sos, x)


def _ref_orient(ns, ew, cur, target):
    r = np.radians(target - cur)
    c, s = np.cos(r), np.sin(r)
    return ew * s + ns * c, ew * c - ns * s      # (ns', ew')


def preprocess_clause(cl, rng, n, replay):
    import hvsrpy
    for j in range(n):
        nrec = int(rng.integers(1, 4))
        fs = float(rng.choice([100., 75., 200., 50.]))
        dt = 1 / fs
        corners = [(None, None), (0.5, None), (None, 15.0), (0.3, 12.0)][j % 4]
        det = ["linear", "constant", "none", None][(j // 4) % 4]
        target = [0., None, 25., 370., -15.][j % 5]
        L = [2.0, 1.5, None, 3.0][(j // 2) % 4]
        if j % 6 == 5:
            # a sampling rate that is not a whole number of hertz (dt = 0.016 s): the corner frequencies are in hertz whatever the rate (window lengths with a whole number of samples)
            fs, dt = 62.5, 0.016
            L = [2.0, None, 4.0][(j // 6) % 3]
            corners = [(0.5, None), (None, 15.0), (0.3, 12.0)][(j // 6) % 3]
        raws, recs, degs = [], [], []
        for _ in range(nrec):
            N = int(rng.integers(int(6.5 * fs), int(9 * fs)))
            if L is not None and rng.random() < 0.4:
                N = int(round(L * fs)) * int(rng.integers(2, 5))      # a whole number of windows: the last one is the legal window that is one sample short
            t = np.arange(N) * dt
            comp = [rng.normal(0, 1, N) + 0.01 * t * rng.uniform(-3, 3) + rng.uniform(-2, 2) for _ in range(3)]
            deg = float(rng.choice([0., 30., 200., 400., 90., 270.]))          # (with the targets 0 / 370 / None: exact quarter turns in both directions among them)
            if j % 7 == 3 and target is not None:
                deg = float((target + rng.choice([90., 270., 180.])) % 720)       # the turn to the target is exactly -90, -270 or -180 degrees (modulo 360)
            rec = rp.mk_record(comp[0], comp[1], comp[2], dt, degrees_from_north=deg)
            if j % 3 == 2 and det in ("linear", "constant"):
                # a record that was already detrended as a whole, in the same manner, before it is handed to preprocess: its windows are still
                # detrended one by one (a slice of a detrended record is not detrended)
                rec.detrend(type=det)
                comp = [detrend(np.array(c, dtype=float), type=det) for c in comp]
            if j % 4 == 1:
                # a recording with an orientation history: the user has already turned it (its current orientation is no longer the deployed one)
                first = float(rng.choice([45., 90., 300., -20.]))
                rec.orient_sensor_to(first)
                cur0 = deg - 360 * (deg // 360)
                a_, b_ = _ref_orient(np.array(comp[0], dtype=float), np.array(comp[1], dtype=float), cur0, first)
                comp = [a_, b_, comp[2]]
                deg = first
            raws.append(comp)
            degs.append(deg)
            recs.append(rec)
        s = hvsrpy.HvsrPreProcessingSettings(orient_to_degrees_from_north=target, filter_corner_frequencies_in_hz=list(corners),
                                             window_length_in_seconds=L, detrend=det)
        out = hvsrpy.preprocess(recs, s)
        want = []
        for comp, deg in zip(raws, degs):
            ns, ew, vt = [np.array(c, dtype=float) for c in comp]
            cur = deg - 360 * (deg // 360)
            if target is not None:
                ns, ew = _ref_orient(ns, ew, cur, target)
            ns, ew, vt = [_ref_filter(c, corners, dt) for c in (ns, ew, vt)]
            if L is None:
                chunks = [(ns, ew, vt)]
            else:
                k = int(round(L * fs))
                W = len(ns) // k
                chunks = [tuple(c[i * k: min(i * k + k + 1, len(c))] for c in (ns, ew, vt)) for i in range(W)]
            for ch in chunks:
                if det not in (None, "none"):
                    ch = tuple(detrend(c, type=det) for c in ch)
                want.append(ch)
        cl.case((nrec, fs, corners, det, target, L))
        if len(out) != len(want):
            cl.fail("hvsrpy.preprocessing.hvsr_preprocess", f"{len(out)} windows, expected {len(want)}", signature="preprocess:count")
            return
        for i, (w, ch) in enumerate(zip(out, want)):
            if not (close(w.ns.amplitude, ch[0], 1e-9, 1e-9) and close(w.ew.amplitude, ch[1], 1e-9, 1e-9) and close(w.vt.amplitude, ch[2], 1e-9, 1e-9)):
                cl.fail("hvsrpy.preprocessing.hvsr_preprocess", f"window {i} differs from orient -> filter(whole record) -> split -> detrend(per window)",
                        signature="preprocess:order", corners=corners, detrend=det, orient=target, window_length=L, fs=fs)
                return


def record_split_clause(cl, rng, n, replay):
    import hvsrpy
    for j in range(n):
        fs = float(rng.choice([75., 100., 150., 300.]))
        N = int(rng.integers(50, 500))
        comp = [rng.normal(0, 1, N) for _ in range(3)]
        rec = rp.mk_record(*comp, 1 / fs, degrees_from_north=float(rng.choice([0., 40.])), meta={"tag": "x"})
        L = float(rng.integers(1, 40)) / fs * float(rng.choice([1, 3]))
        k = int(round(L * fs))
        try:
            wins = rec.split(L)
            raised = False
        except ValueError:
            raised = True
        cl.case((fs, N, L))
        if (N < k) != raised:
            cl.fail("hvsrpy.seismic_recording_3c.SeismicRecording3C.split", "ValueError iff the window is longer than the record", signature="rsplit:raise", N=N, k=k)
            return
        if raised:
            continue
        ok = len(wins) == N // k
        for i, w in enumerate(wins if ok else []):
            for name, c in zip(("ns", "ew", "vt"), comp):
                ok &= np.array_equal(getattr(w, name).amplitude, c[i * k: min(i * k + k + 1, N)])
            ok &= w.degrees_from_north == rec.degrees_from_north and w.meta is not rec.meta
        if not ok:
            cl.fail("hvsrpy.seismic_recording_3c.SeismicRecording3C.split", "components are not split identically into tiling windows", signature="rsplit:tiling",
                    N=N, k=k, fs=fs)
            return


CLAUSES = [
    ("cross-check:TimeSeries.split tiles the record (k whole intervals, shared boundary sample, tail < k, ValueError iff N < k)", "cross-check",
     "14 sampling rates incl. 75/150/300 Hz, window lengths in whole seconds / multiples of dt / arbitrary, record lengths 1..12k+5", "hvsrpy.timeseries.TimeSeries.split", (300, 6000), split_clause),
    ("bounded:hvsr_preprocess == orient -> filter whole record -> split -> detrend each window", "bounded",
     "1-3 records, 4 rates, 4 corner combinations x 4 detrend modes x 5 orientations x 4 window lengths", "hvsrpy.preprocessing.hvsr_preprocess", (40, 800), preprocess_clause),
    ("bounded:SeismicRecording3C.split splits the three components identically", "bounded", "4 rates, 50-500 samples", "hvsrpy.seismic_recording_3c.SeismicRecording3C.split", (60, 1000), record_split_clause),
]

if __name__ == "__main__":
    run(CLAUSES)
