"""C02 native harness: executable form of the smoothing contracts evaluated on the real kernels.

cross-check : interpreted source (.py_func) == numpy evaluation of the published kernel formulas (the spec of
              contracts/C02.py written independently of hvsrpy's loops);
bounded     : compiled (numba dispatcher) == interpreted source, the one clause of C02 no contract on Python source
              can reach.
"""
import numpy as np

from bounded.common import Clause, close, run

EPS = 1e-6
A_PARZEN = np.pi * 280 / (2 * 151)


def _sinc4(x):
    return (np.sin(x) / x) ** 4


def support_weight(name, f, fc, b):
    """returns (take mask, weights, margin) for centre frequency fc; margin = distance of the nearest sample to a
    decision boundary (relative) so that razor-edge float cases can be set aside."""
    with np.errstate(all="ignore"):
        d = f - fc
        m = [np.abs(f - EPS).min() / EPS if f.size else 1.0]
        if name in ("konno_and_ohmachi", "log_rectangular", "log_triangular"):
            ratio = f / fc
            lim = 3 / b if name == "konno_and_ohmachi" else b / 2
            up, lo = 10.0 ** (lim), 10.0 ** (-lim)
            take = (f >= EPS) & (ratio <= up) & (ratio >= lo)
            m += [np.abs(ratio / up - 1).min(), np.abs(ratio / lo - 1).min()]
            if name == "konno_and_ohmachi":
                x = b * np.log10(np.where(ratio > 0, ratio, 1.0))
                near = np.abs(d) < EPS
                m.append(np.abs(np.abs(d) - EPS).min() / EPS)
                w = np.where(near, 1.0, _sinc4(np.where(x == 0, 1.0, x)))
            elif name == "log_rectangular":
                w = np.ones_like(f)
            else:
                w = 1 - np.abs(np.log10(np.where(ratio > 0, ratio, 1.0))) * (2 / b)
        elif name == "parzen":
            lim = np.sqrt(6) * A_PARZEN / b
            take = (f >= EPS) & (d <= lim) & (d >= -lim)
            m += [np.abs(np.abs(d) / lim - 1).min(), np.abs(np.abs(d) - EPS).min() / EPS]
            x = A_PARZEN * d / b
            w = np.where(np.abs(d) < EPS, 1.0, _sinc4(np.where(x == 0, 1.0, x)))
        else:
            take = (f >= EPS) & (np.abs(d) <= b / 2)
            m.append(np.abs(np.abs(d) / (b / 2) - 1).min())
            w = np.ones_like(f) if name == "linear_rectangular" else 1 - np.abs(d) * (2 / b)
    return take, w, min(m)


def spec_kernel(name, f, S, fcs, b):
    out = np.zeros((S.shape[0], fcs.size))
    margin = np.inf
    for c, fc in enumerate(fcs):
        margin = min(margin, abs(fc - EPS) / EPS)
        if fc < EPS:
            continue
        take, w, m = support_weight(name, f, fc, b)
        margin = min(margin, m)
        sw = np.sum(w[take])
        if abs(sw) < 1e-12 and np.any(take):
            margin = 0.0
        if sw > 0:
            out[:, c] = (S[:, take] @ w[take]) / sw
    return out, margin


def gen_case(rng, name, exact=False):
    nr = int(rng.integers(1, 5))
    if exact:
        # dyadic grid: every comparison of the linear kernels is exact in binary floating point
        nf = int(rng.integers(1, 24))
        f = np.arange(nf) * 0.25
        fcs = rng.integers(-2, 4 * nf, size=int(rng.integers(1, 8))) * 0.125
        fcs = np.where(fcs < 0, 0.0, fcs)
        b = float(rng.choice([0.25, 0.5, 1.0, 2.0]))
        S = rng.integers(0, 64, size=(nr, nf)).astype(float) / 8
        return f, S, fcs, b
    n = int(rng.choice([8, 16, 50, 128, 255]))
    dt = float(rng.choice([0.01, 0.005, 1 / 75, 0.02, 0.1]))
    f = np.fft.rfftfreq(n, dt)
    if f.size > 4 and rng.random() < 0.35:
        # the operators are defined for any frequency axis, not only one that starts at 0 Hz: a band-limited spectrum whose first sample is a
        # genuine spectral sample (it is excluded by its value only when it is the 0 Hz sample)
        f = f[int(rng.integers(1, 4)):]
    elif f.size > 4 and rng.random() < 0.3:
        # nor is equal spacing part of the definition of the six windowed operators (only Savitzky-Golay documents it): an ascending axis with
        # geometric spacing, or with two different spacings
        if rng.random() < 0.5:
            f = np.geomspace(max(f[1], 1e-3), f[-1], f.size)
        else:
            h = f.size // 2
            f = np.concatenate([np.linspace(f[1], f[h], h, endpoint=False), np.linspace(f[h], f[-1], 3 * (f.size - h))])
    nfc = int(rng.integers(1, 9))
    mode = rng.integers(0, 4)
    if mode == 0:
        fcs = rng.choice(f, size=nfc)                        # on-grid incl. 0 Hz
    elif mode == 1:
        fcs = rng.uniform(0, f[-1] * 1.3, size=nfc)          # off-grid, some above the last bin
    elif mode == 2:
        fcs = np.concatenate([[0.0, f[1] / 3 if f.size > 1 else 0.1], rng.uniform(0, f[-1], size=nfc)])   # below the first bin
    else:
        fcs = np.sort(rng.uniform(f[-1] * 0.2, f[-1] * 2, size=nfc))[::-1].copy()   # descending, above last
    if name == "konno_and_ohmachi":
        b = float(rng.choice([10., 40., 80.]))
    elif name in ("log_rectangular", "log_triangular"):
        b = float(rng.choice([0.05, 0.2, 0.5]))
    else:
        b = float(rng.choice([0.5, 2.0, 7.3])) * (f[1] if f.size > 1 else 1.0) * float(rng.choice([1, 3]))
    S = np.abs(rng.normal(1, 1, size=(nr, f.size)))
    u = rng.random()
    if u < 0.2 and f.size > 3:
        # spectral samples that are exactly zero in every row (comb spectra, impulses, zero-padded rows): they still carry their weight in the normalisation
        cols = rng.choice(f.size, size=int(rng.integers(1, max(2, f.size // 2))), replace=False)
        S[:, cols] = 0.0
        if rng.random() < 0.3:
            S[:] = 0.0
            S[:, int(rng.integers(0, f.size))] = 1.0            # a unit impulse
    elif u < 0.32 and name in ("linear_triangular", "log_triangular"):
        # a window whose only sample lies just inside its edge (relative distance 3e-7 .. 3e-10 from it): the weight is tiny but positive, the normalised average is that sample
        # (the distance is chosen so that the case is outside the razor-edge margin this harness sets aside - 1e-7 relative - while the weight stays below 1e-6)
        eps_rel = float(rng.choice([4e-7, 6e-7, 8e-7]))
        if name == "log_triangular":
            f = np.array([0.5, 2.0, 8.0, 32.0, 128.0])
            b = 0.5
            k = int(rng.integers(0, f.size))
            side = 1.0 if rng.random() < 0.5 else -1.0
            fcs = np.array([f[k] / 10.0 ** (side * (b / 2) * (1 - eps_rel)), 8.0])
        else:
            f = np.arange(0.0, 9.0)
            b = 0.5
            k = int(rng.integers(1, f.size))
            side = 1.0 if rng.random() < 0.5 else -1.0
            fcs = np.array([f[k] - side * (b / 2) * (1 - eps_rel), 4.0])
        S = np.abs(rng.normal(3, 1, size=(nr, f.size))) + 1.0
    return f, S, fcs, b


KERNELS = ["konno_and_ohmachi", "parzen", "linear_rectangular", "log_rectangular", "linear_triangular", "log_triangular"]


def _call(fn, *args):
    try:
        return fn(*args), None
    except Exception as ex:          # the contract has no exceptional behaviour under its precondition
        return None, f"{type(ex).__name__}: {ex}"


def make_kernel_cross(name):
    def clause(cl, rng, n, replay):
        import hvsrpy.smoothing as sm
        fn = getattr(sm, name).py_func
        for j in range(n):
            exact = name in ("linear_rectangular", "linear_triangular") and j % 2 == 0
            f, S, fcs, b = gen_case(rng, name, exact)
            want, margin = spec_kernel(name, f, S, fcs, b)
            if not exact and margin < 1e-7:
                cl.skipped += 1
                continue
            S0, f0, fcs0 = S.copy(), f.copy(), fcs.copy()
            got, err = _call(fn, f, S, fcs, b)
            cl.case((f.size, S.shape[0], tuple(np.round(fcs, 6)), b), nontrivial=bool(np.any(want != 0)))
            if err or not close(got, want):
                cl.fail(f"hvsrpy.smoothing.{name}", err or "result differs from the normalised-kernel spec",
                        frequencies=f, spectrum=S, fcs=fcs, bandwidth=b, observed=got, required=want, signature=name)
                return
            if not (np.array_equal(S, S0) and np.array_equal(f, f0) and np.array_equal(fcs, fcs0)):
                cl.fail(f"hvsrpy.smoothing.{name}", "inputs modified (frame: modifies nothing)", signature=name + ":frame")
                return
            if j % 4 == 2:
                # a sample that lies in no window has weight zero in every average: whatever it holds - a NaN or an infinity in the 0 Hz bin, say - stays out of the result
                used = np.zeros(f.size, dtype=bool)
                for fc in fcs:
                    if fc >= EPS:
                        used |= support_weight(name, f, fc, b)[0]
                if (~used).any():
                    Sx = S.copy()
                    Sx[:, ~used] = [np.nan, np.inf, -np.inf][(j // 4) % 3]
                    got_x, err = _call(fn, f, Sx, fcs, b)
                    if err or not close(got_x, want):
                        cl.fail(f"hvsrpy.smoothing.{name}", err or "a non-finite value in a sample outside every window reaches the result (samples outside the window must not contribute)",
                                frequencies=f, spectrum=Sx, fcs=fcs, bandwidth=b, observed=got_x, required=want, signature=name + ":outside-nonfinite")
                        return
            if j % 5 == 0:
                # the numbers decide, not their dtype: integer-valued and single-precision spectra give the weighted average of those numbers
                for Sx in (np.round(np.abs(S) * 50 + 1).astype(np.int64), S.astype(np.float32)):
                    want_x, _ = spec_kernel(name, f, Sx.astype(float), fcs, b)
                    got_x, err = _call(fn, f, Sx, fcs, b)
                    if err or not close(got_x, want_x, rtol=1e-9, atol=1e-12):
                        cl.fail(f"hvsrpy.smoothing.{name}", err or f"a {Sx.dtype} spectrum is not smoothed to the weighted average of its values (result depends on the dtype)",
                                frequencies=f, spectrum=Sx, fcs=fcs, bandwidth=b, observed=got_x, required=want_x, signature=name + ":dtype")
                        return
    return clause


def make_kernel_compiled(name):
    def clause(cl, rng, n, replay):
        import hvsrpy.smoothing as sm
        disp = getattr(sm, name)
        for j in range(n):
            f, S, fcs, b = gen_case(rng, name, exact=(j % 3 == 0 and name.startswith("linear")))
            a, e1 = _call(disp, f, S, fcs, b)
            p, e2 = _call(disp.py_func, f, S, fcs, b)
            cl.case((f.size, S.shape[0], tuple(np.round(fcs, 6)), b))
            if e1 or e2 or not close(a, p, rtol=1e-12, atol=0):
                cl.fail(f"hvsrpy.smoothing.{name}", e1 or e2 or "compiled kernel differs from its interpreted source",
                        frequencies=f, spectrum=S, fcs=fcs, bandwidth=b, compiled=a, interpreted=p, signature=name + ":njit")
                return
    return clause


# ---------------------------------------------------------------- Savitzky-Golay
def sg_spec(f, S, fcs, m):
    h = (m - 1) // 2
    norm = m * (m * m - 4) / 3
    coef = lambda i: (3 * m * m - 7 - 20 * i * i) / 4
    df = f[1] - f[0]
    q = (fcs - f.min()) / df
    n = np.round(q).astype(int)
    margin = np.abs(np.abs(q - np.floor(q)) - 0.5).min() if q.size else 1.0
    out = np.zeros((S.shape[0], fcs.size))
    for c, k in enumerate(n):
        if k < h + 1 or k + h + 1 > f.size:
            continue
        for i in range(-h, h + 1):
            out[:, c] += coef(i) * S[:, k + i]
        out[:, c] /= norm
    return out, margin


def gen_sg(rng):
    nf = int(rng.integers(2, 40))
    df = float(rng.choice([0.25, 0.5, 0.1, 1 / 3]))
    f0 = float(rng.choice([0.0, 0.5, 2.0]))
    f = f0 + np.arange(nf) * df
    m = int(rng.choice([3, 5, 7, 9, 11]))
    nfc = int(rng.integers(1, 10))
    idx = rng.integers(0, nf, size=nfc)
    fcs = f[idx] + rng.choice([0.0, 0.0, 0.2 * df, -0.3 * df], size=nfc)
    if rng.random() < 0.5:       # make sure both edges are probed: indices h, h+1, nf-h-1, nf-h-2
        h = (m - 1) // 2
        edge = [k for k in (h, h + 1, nf - h - 2, nf - h - 1, nf - h, 0, nf - 1) if 0 <= k < nf]
        fcs = np.concatenate([fcs, f[edge]])
    S = np.abs(rng.normal(1, 1, size=(int(rng.integers(1, 4)), nf)))
    return f, S, fcs, m


def sg_cross(cl, rng, n, replay):
    import hvsrpy.smoothing as sm
    real_core = sm._savitzky_and_golay
    for j in range(n):
        f, S, fcs, m = gen_sg(rng)
        want, margin = sg_spec(f, S, fcs, m)
        if margin < 1e-6:
            cl.skipped += 1
            continue
        sm._savitzky_and_golay = real_core.py_func
        try:
            got, err = _call(sm.savitzky_and_golay, f, S, fcs, m)
        finally:
            sm._savitzky_and_golay = real_core
        cl.case((f.size, m, tuple(np.round(fcs, 6))), nontrivial=bool(np.any(want != 0)))
        if err or not close(got, want):
            cl.fail("hvsrpy.smoothing.savitzky_and_golay", err or "result differs from the Savitzky-Golay quadratic/cubic spec",
                    frequencies=f, spectrum=S, fcs=fcs, bandwidth=m, observed=got, required=want, signature="savitzky_and_golay")
            return
        # cubic polynomials are reproduced at admitted interior points
        x = (f - f[0]) / (f[1] - f[0])
        P = (0.3 * x ** 3 - 1.1 * x ** 2 + 0.7 * x + 2.0)[None, :]
        sm._savitzky_and_golay = real_core.py_func
        try:
            got, err = _call(sm.savitzky_and_golay, f, P, fcs, m)
        finally:
            sm._savitzky_and_golay = real_core
        k = np.round((fcs - f.min()) / (f[1] - f[0])).astype(int)
        h = (m - 1) // 2
        ok = (k >= h + 1) & (k + h + 1 <= f.size)
        if err or not np.allclose(got[0, ok], P[0, k[ok]], rtol=1e-8, atol=1e-8):
            cl.fail("hvsrpy.smoothing.savitzky_and_golay", err or "cubic polynomial not reproduced", frequencies=f, fcs=fcs, bandwidth=m,
                    signature="savitzky_and_golay:cubic")
            return
    # error behaviour: even bandwidth / non-uniform grid -> ValueError
    import hvsrpy.smoothing as sm2
    for bad in (4, 6.0, 8):
        cl.case(("even", bad))
        try:
            sm2.savitzky_and_golay(np.arange(10.), np.ones((1, 10)), np.array([4.]), bad)
            cl.fail("hvsrpy.smoothing.savitzky_and_golay", f"even bandwidth {bad} accepted", signature="savitzky_and_golay:even")
        except ValueError:
            pass
    cl.case(("nonuniform",))
    try:
        sm2.savitzky_and_golay(np.array([0., 1., 2., 4., 5., 6., 7.]), np.ones((1, 7)), np.array([3.]), 3)
        cl.fail("hvsrpy.smoothing.savitzky_and_golay", "non-uniform grid accepted", signature="savitzky_and_golay:grid")
    except ValueError:
        pass


def sg_compiled(cl, rng, n, replay):
    import hvsrpy.smoothing as sm
    for j in range(n):
        f, S, fcs, m = gen_sg(rng)
        h = (m - 1) // 2
        coef = np.array([(3 * m * m - 7 - 20 * i * i) / 4 for i in range(-h, 1)])
        norm = m * (m * m - 4) / 3
        nfcs = np.round((fcs - f.min()) / (f[1] - f[0])).astype(int)
        a, e1 = _call(sm._savitzky_and_golay, S, nfcs, coef, norm)
        p, e2 = _call(sm._savitzky_and_golay.py_func, S, nfcs, coef, norm)
        cl.case((f.size, m, tuple(nfcs.tolist())))
        if e1 or e2 or not close(a, p, rtol=1e-12, atol=0):
            cl.fail("hvsrpy.smoothing._savitzky_and_golay", e1 or e2 or "compiled differs from interpreted", spectrum=S, nfcs=nfcs,
                    coefficients=coef, compiled=a, interpreted=p, signature="_savitzky_and_golay:njit")
            return


def registry(cl, rng, n, replay):
    import hvsrpy.smoothing as sm
    want = {"konno_and_ohmachi", "parzen", "savitzky_and_golay", "linear_rectangular", "log_rectangular", "linear_triangular", "log_triangular"}
    cl.case(tuple(sorted(sm.SMOOTHING_OPERATORS)))
    cl.case("identity")
    if set(sm.SMOOTHING_OPERATORS) != want:
        cl.fail("hvsrpy.smoothing.SMOOTHING_OPERATORS", f"registry keys {sorted(sm.SMOOTHING_OPERATORS)}", signature="registry")
    for k in want & set(sm.SMOOTHING_OPERATORS):
        if sm.SMOOTHING_OPERATORS[k] is not getattr(sm, k):
            cl.fail("hvsrpy.smoothing.SMOOTHING_OPERATORS", f"{k} maps to another function", signature="registry")


CLAUSES = []
for _k in KERNELS:
    CLAUSES.append((f"cross-check:{_k} == normalised kernel spec", "cross-check", "random FFT grids n<=255, 1-4 rows, 1-10 centre frequencies (on/off grid, 0 Hz, above last bin), 3 bandwidths; dyadic exact-edge grids for the linear kernels",
                    f"hvsrpy.smoothing.{_k}", (60, 1500), make_kernel_cross(_k)))
    CLAUSES.append((f"bounded:{_k} compiled == interpreted", "bounded", "same generator; 40 (quick) / 2000 (thorough) cases, rtol 1e-12",
                    f"hvsrpy.smoothing.{_k}", (40, 2000), make_kernel_compiled(_k)))
CLAUSES.append(("cross-check:savitzky_and_golay == SG(quadratic/cubic) spec", "cross-check", "uniform grids 2..40 samples, m in {3,5,7,9,11}, edge indices probed",
                "hvsrpy.smoothing.savitzky_and_golay", (80, 2000), sg_cross))
CLAUSES.append(("bounded:_savitzky_and_golay compiled == interpreted", "bounded", "same generator; 40/2000 cases", "hvsrpy.smoothing._savitzky_and_golay",
                (40, 2000), sg_compiled))
CLAUSES.append(("cross-check:SMOOTHING_OPERATORS registry", "cross-check", "exhaustive (7 names)", "hvsrpy.smoothing.SMOOTHING_OPERATORS", (1, 1), registry))

if __name__ == "__main__":
    run(CLAUSES)
