"""C09 native harness: process() has no side effects on its inputs, is repeatable, and its result is independent of later edits."""
import copy

import numpy as np

from bounded.common import close, run
from bounded import refproc as rp

FCS = np.array([1.0, 2.0, 4.0, 8.0, 16.0])


def mk_settings(kind, width, fft=None, azs=None, policy=None):
    import hvsrpy
    sm = dict(operator="konno_and_ohmachi", bandwidth=30., center_frequencies_in_hz=FCS.copy())
    kw = dict(window_type_and_width=["tukey", width], smoothing=sm, fft_settings=fft)
    if policy is not None:
        kw["handle_dissimilar_time_steps_by"] = policy
    if kind in rp.ALIASES:
        return hvsrpy.HvsrTraditionalProcessingSettings(method_to_combine_horizontals=kind, **kw)
    if kind == "single_azimuth":
        return hvsrpy.HvsrTraditionalSingleAzimuthProcessingSettings(azimuth_in_degrees=(azs[0] if azs is not None else 30.), **kw)
    if kind == "rotdpp":
        return hvsrpy.HvsrTraditionalRotDppProcessingSettings(azimuths_in_degrees=(azs if azs is not None else np.arange(0, 180, 30.)), **kw)
    if kind == "azimuthal":
        return hvsrpy.HvsrAzimuthalProcessingSettings(azimuths_in_degrees=(azs if azs is not None else np.array([0., 45., 90.])), **kw)
    if kind == "diffuse_field":
        return hvsrpy.HvsrDiffuseFieldProcessingSettings(**kw)
    if kind == "psd":
        return hvsrpy.PsdProcessingSettings(**kw)
    raise KeyError(kind)


KINDS = ["geometric_mean", "squared_average", "arithmetic_mean", "total_horizontal_energy", "maximum_horizontal_value", "vector_summation",
         "single_azimuth", "rotdpp", "azimuthal", "diffuse_field", "psd"]


def values(res):
    import hvsrpy
    if isinstance(res, dict):
        return np.concatenate([np.concatenate([res[k].frequency, res[k].amplitude]) for k in ("ns", "ew", "vt")])
    if isinstance(res, hvsrpy.HvsrAzimuthal):
        return np.concatenate([h.amplitude.ravel() for h in res.hvsrs] + [res.frequency])
    return np.concatenate([np.atleast_2d(res.amplitude).ravel(), res.frequency])


def meta_of(res):
    if isinstance(res, dict):
        return repr(sorted((k, sorted(map(str, res[k].meta.items()))) for k in res))
    return repr(sorted((str(k), repr(v)) for k, v in res.meta.items()))


def side_effect_clause(cl, rng, n, replay):
    import hvsrpy
    for j in range(n):
        kind = KINDS[j % len(KINDS)]
        L = int(rng.integers(1, 4))
        N = int(rng.integers(60, 200))
        raws = [rp.gen_window(rng, N=N, dt=0.01, scale=1.0) for _ in range(L)]
        policy = None
        if kind != "psd" and (j // len(KINDS)) % 2 == 1:
            # recordings with different time steps under each of the three policies: recordings that are dropped, and those that are kept, stay as they were
            policy = ["frequency_domain_resampling", "keeping_smallest_time_step", "keeping_majority_time_step"][(j // (2 * len(KINDS))) % 3]
            if kind == "diffuse_field" and policy == "frequency_domain_resampling":
                policy = "keeping_majority_time_step"          # diffuse-field processing refuses mixed steps otherwise
            pattern = [(0.01, 0.02, 0.01), (0.02, 0.01, 0.01), (0.01, 0.01, 0.02, 0.005)][j % 3]
            raws = [rp.gen_window(rng, N=N, dt=d, scale=1.0) for d in pattern]
            L = len(raws)
        if j % 4 == 2:
            # raw counts ride on an offset much larger than their fluctuation (no detrending before process()): still the caller's samples afterwards
            raws = [(r[0] + 25.0, r[1] - 40.0, r[2] + 12.5, r[3]) for r in raws]
        recs = [rp.mk_record(*r, degrees_from_north=float(rng.choice([0., 20.])), meta={"file name(s)": ["a.mseed", "b.mseed"], "tag": {"k": [1, 2]}}) for r in raws]
        width = float(rng.choice([0.1, 0.3, 1.0]))
        azs = [None, np.array([0., 90.]), np.array([0., 35., 90., 140.]), np.array([20., 65.])][j % 4]
        # FFT length: left to the library, or given by the user - below, at and above the power of two the library would pick (even values: the PSD code's domain)
        fft = [None, dict(n=40000), None, dict(n=32768), dict(n=65536), dict(n=1000), dict(n=98304)][(j // 3) % 7]
        s = mk_settings(kind, width, fft=(dict(fft) if fft is not None else None), azs=azs, policy=policy)
        snaps = [rp.snapshot_record(r) for r in recs]
        ids = [id(r) for r in recs]
        try:
            r1 = hvsrpy.process(recs, s)
        except Exception as ex:
            cl.fail(f"hvsrpy.processing.process[{kind}]", f"{type(ex).__name__}: {ex}", signature="c09:exception")
            return
        cl.case((j, kind, L, N, width, policy, repr(fft)))
        if [id(r) for r in recs] != ids or any(not rp.same_snapshot(a, rp.snapshot_record(r)) for a, r in zip(snaps, recs)):
            cl.fail(f"hvsrpy.processing.process[{kind}]", "process() changed the recordings it was given (samples, time step, orientation or metadata)"
                    + (f" [mixed time steps, {policy}]" if policy else ""), signature=f"c09:frame:{kind}", azimuths=azs, policy=policy)
            return
        v1, m1 = values(r1).copy(), meta_of(r1)
        r2 = hvsrpy.process(recs, s)
        r3 = hvsrpy.process(recs, s) if fft is not None else r2
        if not (np.array_equal(values(r2), v1) and np.array_equal(values(r3), v1) and meta_of(r2) == m1 and meta_of(r3) == m1):
            cl.fail(f"hvsrpy.processing.process[{kind}]", "the same processing on the same recordings with the same settings object returned a different result",
                    signature=f"c09:repeat:{kind}", azimuths=azs)
            return
        # the returned result does not change when the recordings or the settings are modified afterwards
        for r in recs:
            r.ns.amplitude[:] = 0.0
            r.vt.amplitude *= 3.0
            r.meta["file name(s)"].append("zzz")
            r.meta["tag"]["k"].append(99)
        s.window_type_and_width[1] = 0.77
        s.smoothing["center_frequencies_in_hz"][0] = 123.0
        s.smoothing["bandwidth"] = 1.0
        if s.fft_settings is not None:
            s.fft_settings["n"] = 7
        if hasattr(s, "azimuths_in_degrees"):
            try:
                s.azimuths_in_degrees[0] = 179.0
            except TypeError:
                pass
        if not (np.array_equal(values(r1), v1) and meta_of(r1) == m1):
            cl.fail(f"hvsrpy.processing.process[{kind}]", "a returned result changed when the recordings / the settings object were modified afterwards",
                    signature=f"c09:alias:{kind}")
            return


def interleaved_clause(cl, rng, n, replay):
    """any number of repeated or interleaved calls: each (records, settings) job gives the same result whatever ran before it"""
    import hvsrpy
    jobs = []
    for N in (96, 96, 140):
        raws = [rp.gen_window(rng, N=N, dt=0.01, scale=1.0) for _ in range(2)]
        for kind in ("geometric_mean", "single_azimuth", "rotdpp", "diffuse_field", "psd", "azimuthal"):
            for width in (0.1, 0.6):
                jobs.append((raws, kind, width))
    # one job that needs an FFT longer than the 32768 floor: a length chosen for it must not leak into the other jobs' (default) settings
    jobs.append(([rp.gen_window(rng, N=33000, dt=0.01, scale=1.0)], "geometric_mean", 0.1))
    ref = {}
    for rounds in range(max(2, n // 10)):
        order = rng.permutation(len(jobs))
        for ji in order:
            raws, kind, width = jobs[ji]
            recs = [rp.mk_record(*r) for r in raws]
            s = mk_settings(kind, width)
            v = values(hvsrpy.process(recs, s)).copy()
            cl.case((rounds, int(ji)))
            if ji in ref and not np.array_equal(ref[ji], v):
                cl.fail(f"hvsrpy.processing.process[{kind}]", f"job (N={len(raws[0][0])}, {kind}, taper {width}) returned a different result when run after other jobs "
                        "(hidden state shared between calls)", signature=f"c09:interleaved:{kind}", width=width)
                return
            ref.setdefault(ji, v)


def known_f15(cl, rng, n, replay):
    import hvsrpy
    r = rp.gen_window(np.random.default_rng(0), N=134, dt=0.01)
    s = hvsrpy.HvsrTraditionalProcessingSettings(fft_settings=dict(n=None), smoothing=dict(operator="konno_and_ohmachi", bandwidth=10., center_frequencies_in_hz=[4., 8., 16., 30.]))
    rec = [rp.mk_record(*r)]
    a = hvsrpy.process(rec, s).amplitude.copy()
    n1 = s.fft_settings["n"]
    b = hvsrpy.process(rec, s).amplitude.copy()
    cl.case("F-15")
    cl.case("F-15b")
    if not np.array_equal(a, b):
        cl.fail("hvsrpy.processing.prepare_fft_settings", f"fft_settings={{'n': None}}: first call n={n1}, second call n={s.fft_settings['n']}, different curves",
                signature="F-15:n-none-not-kept")


CLAUSES = [
    ("bounded:process() leaves the recordings untouched, is repeatable, result independent of later edits (all methods)", "bounded",
     "11 methods x 1-3 windows x 3 tapers x 4 azimuth sets; every other round with 3-4 recordings of mixed time steps under the three policies; deep snapshots of records (samples, per-component time step, orientation, metadata); mutation of records/settings after the call", "hvsrpy.processing.process", (66, 880), side_effect_clause),
    ("bounded:interleaved calls - no hidden state between calls", "bounded", "36 jobs (3 lengths x 6 methods x 2 tapers) in random orders", "hvsrpy.processing.process", (20, 100), interleaved_clause),
    ("bounded:repeatability with fft_settings={'n': None} (F-15 state)", "bounded", "one constructed call sequence", "hvsrpy.processing.prepare_fft_settings", (1, 1), known_f15),
]

if __name__ == "__main__":
    run(CLAUSES)
