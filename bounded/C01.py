"""C01 native harness: process() against the independent evaluation of the spectral-ratio definition (bounded/refproc.py)."""
import numpy as np

from bounded.common import close, run
from bounded import refproc as rp

RTOL = 1e-7


def _nextpow2(N, m=2 ** 15):
    p = m
    while p <= N:
        p *= 2
    return p


def _fft_mode(rng, maxN):
    mode = int(rng.integers(0, 4))
    if mode == 0:
        return None, _nextpow2(maxN)
    if mode == 1:
        return dict(n=None), maxN
    if mode == 2:
        u = int(rng.choice([64, 1000, 40000, 70001 - 1]))
        return dict(n=u), max(_nextpow2(maxN), u)
    return dict(), _nextpow2(maxN)


def _settings(cls, rng, maxN, dt, **kw):
    import hvsrpy
    fft, n_expected = _fft_mode(rng, maxN)
    width = float(rng.choice([0.0, 0.1, 0.35, 1.0]))
    operator, b, fcs = rp.gen_smoothing(rng, 0.5 / dt, n_expected, dt)
    s = getattr(hvsrpy.settings, cls)(window_type_and_width=["tukey", width],
                                      smoothing=dict(operator=operator, bandwidth=b, center_frequencies_in_hz=fcs.tolist()),
                                      fft_settings=fft, **kw)
    return s, n_expected, width, operator, b, fcs


def _records(rng, count=None, dt=None):
    count = int(count or rng.integers(1, 4))
    N = int(rng.integers(40, 300))
    dt = float(dt or rng.choice([0.01, 0.005, 0.02, 1 / 75]))
    raw = [rp.gen_window(rng, N=N, dt=dt) for _ in range(count)]
    return raw, [rp.mk_record(*r) for r in raw], N, dt


def _check_rows(cl, fn, got, want_rows, margins, n_used, n_expected, N, detail, sig):
    if n_used != n_expected or n_used < N:
        cl.fail(fn, f"FFT length {n_used}: expected {n_expected} (never below the window length {N})", signature=sig + ":n", **detail)
        return False
    for i, (w, m) in enumerate(zip(want_rows, margins)):
        if m < 1e-7 or not np.all(np.isfinite(w)) or np.any(w <= 0):
            cl.skipped += 1
            continue
        if not close(got[i], w, rtol=RTOL, atol=0):
            cl.fail(fn, f"curve {i} differs from smoothed(combined horizontal)/smoothed(vertical)", signature=sig, observed=got[i],
                    required=w, row=i, **detail)
            return False
    return True


def _same_records_again(cl, rng, raw, recs, N, dt, first):
    """the same recording objects handed to process() a second time, with another method: the curves are still those of the samples as they were recorded
    (a run that tapered, rotated or otherwise edited the caller's recordings shows here and nowhere else)"""
    import hvsrpy
    method = str(rng.choice(list(rp.ALIASES)))
    s, n_exp, width, op, b, fcs = _settings("HvsrTraditionalProcessingSettings", rng, N, dt, method_to_combine_horizontals=method)
    try:
        h = hvsrpy.process(recs, s)
    except Exception:
        return True
    n_used = s.fft_settings["n"]
    want = [rp.curve_traditional(*r[:3], dt, n_used, method, width, op, b, fcs) for r in raw]
    cl.case(("again", first, method, op, b, width, N, dt))
    return _check_rows(cl, "hvsrpy.processing.process", h.amplitude, [w[0] for w in want], [w[1] for w in want], n_used, n_exp, N,
                       dict(first_run=first, method=method, operator=op, bandwidth=b, width=width, N=N, dt=dt, fcs=fcs), f"again-after-{first}")


def traditional(cl, rng, n, replay):
    import hvsrpy
    methods = list(rp.ALIASES)
    for j in range(n):
        raw, recs, N, dt = _records(rng)
        method = methods[j % len(methods)]
        s, n_exp, width, op, b, fcs = _settings("HvsrTraditionalProcessingSettings", rng, N, dt, method_to_combine_horizontals=method)
        try:
            h = hvsrpy.process(recs, s)
        except Exception as ex:
            want = [rp.curve_traditional(*r[:3], dt, n_exp, method, width, op, b, fcs) for r in raw]
            if all(np.all(np.isfinite(w[0])) and np.all(w[0] > 0) and w[1] > 1e-7 for w in want):
                cl.fail("hvsrpy.processing.traditional_hvsr_processing", f"process raised {type(ex).__name__}: {ex}", signature="traditional:raise",
                        method=method, operator=op)
                return
            cl.skipped += 1
            continue
        n_used = s.fft_settings["n"]
        want = [rp.curve_traditional(*r[:3], dt, n_used, method, width, op, b, fcs) for r in raw]
        cl.case((method, op, b, width, N, dt, len(raw), n_used))
        if not isinstance(h, hvsrpy.HvsrTraditional) or h.amplitude.shape != (len(raw), len(fcs)) or not close(h.frequency, fcs, 0, 0):
            cl.fail("hvsrpy.processing.traditional_hvsr_processing", "result shape / frequency vector", signature="traditional:shape", method=method)
            return
        if not _check_rows(cl, "hvsrpy.processing.traditional_hvsr_processing", h.amplitude, [w[0] for w in want], [w[1] for w in want],
                           n_used, n_exp, N, dict(method=method, operator=op, bandwidth=b, width=width, N=N, dt=dt, fcs=fcs), "traditional"):
            return


def single_azimuth(cl, rng, n, replay):
    import hvsrpy
    for j in range(n):
        raw, recs, N, dt = _records(rng)
        az = float(rng.choice([0., 20., 90., 135., 37.5, 180., 270., -30.]))
        alias = ["single_azimuth", "directional_energy"][j % 2]
        s, n_exp, width, op, b, fcs = _settings("HvsrTraditionalSingleAzimuthProcessingSettings", rng, N, dt,
                                                method_to_combine_horizontals=alias, azimuth_in_degrees=az)
        try:
            h = hvsrpy.process(recs, s)
        except Exception as ex:
            cl.skipped += 1
            continue
        n_used = s.fft_settings["n"]
        want = [rp.curve_single_azimuth(*r[:3], dt, n_used, az, width, op, b, fcs) for r in raw]
        cl.case((alias, az, op, b, width, N, dt))
        if not _check_rows(cl, "hvsrpy.processing.traditional_single_azimuth_hvsr_processing", h.amplitude, [w[0] for w in want],
                           [w[1] for w in want], n_used, n_exp, N, dict(azimuth=az, operator=op, bandwidth=b, width=width, N=N, dt=dt, fcs=fcs),
                           "single_azimuth"):
            return
        if j % 2 == 0 and not _same_records_again(cl, rng, raw, recs, N, dt, "single_azimuth"):
            return


def rotdpp(cl, rng, n, replay):
    import hvsrpy
    for j in range(n):
        raw, recs, N, dt = _records(rng, count=int(rng.integers(1, 3)))
        # the percentile is over the azimuths *requested*, duplicates and directions that coincide modulo 180 included
        azs = [np.arange(0, 180, 30.), np.array([20.]), np.array([10., 30., 75.]), np.arange(0, 180, 45.), np.array([0., 90.]),
               np.array([0., 60., 120., 180.]), np.arange(0, 360, 45.), np.array([20., 200., 75.]), np.array([30., 30., 100.])][j % 9]
        p = float(rng.choice([0., 50., 100., 30., 84.]))
        s, n_exp, width, op, b, fcs = _settings("HvsrTraditionalRotDppProcessingSettings", rng, N, dt, azimuths_in_degrees=azs,
                                                ppth_percentile_for_rotdpp_computation=p)
        try:
            h = hvsrpy.process(recs, s)
        except Exception:
            cl.skipped += 1
            continue
        n_used = s.fft_settings["n"]
        want = [rp.curve_rotdpp(*r[:3], dt, n_used, azs, p, width, op, b, fcs) for r in raw]
        cl.case((tuple(azs), p, op, b, width, N, dt))
        if not _check_rows(cl, "hvsrpy.processing.traditional_rotdpp_hvsr_processing", h.amplitude, [w[0] for w in want], [w[1] for w in want],
                           n_used, n_exp, N, dict(azimuths=azs, percentile=p, operator=op, bandwidth=b, width=width, N=N, dt=dt, fcs=fcs), "rotdpp"):
            return
        if not _same_records_again(cl, rng, raw, recs, N, dt, "rotdpp"):
            return


def azimuthal(cl, rng, n, replay):
    import hvsrpy
    for j in range(n):
        raw, recs, N, dt = _records(rng, count=int(rng.integers(1, 3)))
        azs = [np.array([0., 45., 90., 135.]), np.array([15.]), np.array([10., 100., 170.]), np.arange(0, 180, 60.), np.array([100., 10., 55.]),
               np.array([60., 60., 20.])][j % 6]       # the caller's list as given: any order, repeated values allowed
        s, n_exp, width, op, b, fcs = _settings("HvsrAzimuthalProcessingSettings", rng, N, dt, azimuths_in_degrees=azs)
        try:
            h = hvsrpy.process(recs, s)
        except Exception:
            cl.skipped += 1
            continue
        n_used = s.fft_settings["n"]
        n_exp = max(n_exp, _nextpow2(N))      # see known finding F-15 (user n=None is not kept across prepare_fft_settings calls)
        cl.case((tuple(azs), op, b, width, N, dt))
        if not isinstance(h, hvsrpy.HvsrAzimuthal) or len(h.hvsrs) != len(azs) or not close(h.azimuths, azs, 0, 0):
            cl.fail("hvsrpy.processing.azimuthal_hvsr_processing", "result is not one HvsrTraditional per azimuth, in order", signature="azimuthal:shape")
            return
        for a, hv in zip(azs, h.hvsrs):
            want = [rp.curve_single_azimuth(*r[:3], dt, n_used, a, width, op, b, fcs) for r in raw]
            if not _check_rows(cl, "hvsrpy.processing.azimuthal_hvsr_processing", hv.amplitude, [w[0] for w in want], [w[1] for w in want],
                               n_used, n_exp, N, dict(azimuth=a, operator=op, bandwidth=b, width=width, N=N, dt=dt, fcs=fcs), "azimuthal"):
                return
        if j % 2 == 0 and not _same_records_again(cl, rng, raw, recs, N, dt, "azimuthal"):
            return


def diffuse(cl, rng, n, replay):
    import hvsrpy
    for j in range(n):
        raw, recs, N, dt = _records(rng, count=int(rng.integers(1, 4)))
        s, n_exp, width, op, b, fcs = _settings("HvsrDiffuseFieldProcessingSettings", rng, N, dt)
        if op == "savitzky_and_golay" or s.fft_settings == {} or (s.fft_settings or {}).get("n", 0) is None and N % 2:
            # odd FFT lengths are outside the PSD code's domain (observation in DESIGN section 6)
            cl.skipped += 1
            continue
        try:
            h = hvsrpy.process(recs, s)
        except Exception as ex:
            want, margin = rp.curve_diffuse(raw, n_exp, width, op, b, fcs)
            if np.all(np.isfinite(want)) and np.all(want > 0) and margin > 1e-7:
                cl.fail("hvsrpy.processing.diffuse_field_hvsr_processing", f"process raised {type(ex).__name__}: {ex}", signature="diffuse:raise", operator=op)
                return
            cl.skipped += 1       # an empty smoothing window yields 0/0: outside the property's domain (finite curves)
            continue
        n_used = s.fft_settings["n"]
        want, margin = rp.curve_diffuse(raw, n_used, width, op, b, fcs)
        cl.case((op, b, width, N, dt, len(raw)))
        if not _check_rows(cl, "hvsrpy.processing.diffuse_field_hvsr_processing", [h.amplitude], [want], [margin], n_used, n_exp, N,
                           dict(operator=op, bandwidth=b, width=width, N=N, dt=dt, fcs=fcs), "diffuse"):
            return
        if j % 2 == 0 and not _same_records_again(cl, rng, raw, recs, N, dt, "diffuse"):
            return
        if j % 3 == 1:
            # windows of two time steps under a 'keeping' policy, a window that is *not* kept given first: the curve is that of the kept windows alone - their time
            # step labels the FFT bins, their densities are averaged
            other = float(rng.choice([d for d in (0.005, 0.01, 0.02) if abs(d - dt) > 1e-9]))
            policy = "keeping_smallest_time_step" if other > dt else "keeping_majority_time_step"
            extra_raw = [rp.gen_window(rng, N=N, dt=other)]
            kept_raw = list(raw) + ([rp.gen_window(rng, N=N, dt=dt)] if len(raw) == 1 else [])       # the kept ones are a majority as well
            all_raw = extra_raw + kept_raw
            s2, n_exp2, width2, op2, b2, fcs2 = _settings("HvsrDiffuseFieldProcessingSettings", rng, N, dt, handle_dissimilar_time_steps_by=policy)
            if op2 == "savitzky_and_golay" or s2.fft_settings == {} or (s2.fft_settings or {}).get("n", 0) is None and N % 2:
                continue
            try:
                h2 = hvsrpy.process([rp.mk_record(*r) for r in all_raw], s2)
            except Exception as ex:
                want2, margin2 = rp.curve_diffuse(kept_raw, n_exp2, width2, op2, b2, fcs2)
                if np.all(np.isfinite(want2)) and np.all(want2 > 0) and margin2 > 1e-7:
                    cl.fail("hvsrpy.processing.diffuse_field_hvsr_processing", f"process raised {type(ex).__name__}: {ex} (two time steps, policy {policy})", signature="diffuse:mixed:raise")
                    return
                continue
            n_used2 = s2.fft_settings["n"]
            want2, margin2 = rp.curve_diffuse(kept_raw, n_used2, width2, op2, b2, fcs2)
            cl.case((op2, b2, width2, N, dt, other, policy))
            if margin2 >= 1e-7 and np.all(np.isfinite(want2)) and np.all(want2 > 0) and not close(h2.amplitude, want2, rtol=RTOL, atol=0):
                cl.fail("hvsrpy.processing.diffuse_field_hvsr_processing", f"time steps {other} (given first, not kept) and {dt} under {policy}: the curve is not that of the kept windows "
                        "(their time step labels the FFT bins)", signature="diffuse:mixed", observed=h2.amplitude, required=want2, operator=op2, bandwidth=b2, fcs=fcs2)
                return


def common_factor(cl, rng, n, replay):
    """one factor on all three components leaves every curve unchanged - for every processing path and for factors that take the samples to the size of
    ground motion in SI units (1e-9) as well as to large counts"""
    import hvsrpy
    fcs = np.array([1.0, 3.0, 7.0, 12.0])
    sm = dict(operator="konno_and_ohmachi", bandwidth=40., center_frequencies_in_hz=fcs)
    kinds = [("traditional", lambda: hvsrpy.HvsrTraditionalProcessingSettings(method_to_combine_horizontals="geometric_mean", smoothing=sm)),
             ("single_azimuth", lambda: hvsrpy.HvsrTraditionalSingleAzimuthProcessingSettings(azimuth_in_degrees=35., smoothing=sm)),
             ("rotdpp", lambda: hvsrpy.HvsrTraditionalRotDppProcessingSettings(azimuths_in_degrees=np.arange(0, 180, 30.), ppth_percentile_for_rotdpp_computation=70., smoothing=sm)),
             ("azimuthal", lambda: hvsrpy.HvsrAzimuthalProcessingSettings(azimuths_in_degrees=np.array([0., 60., 120.]), smoothing=sm)),
             ("diffuse_field", lambda: hvsrpy.HvsrDiffuseFieldProcessingSettings(smoothing=sm))]
    factors = [1e-9, 1e-7, 1e-4, 1e3, 1e6]
    for j in range(n):
        kind, mk = kinds[j % len(kinds)]
        k = factors[(j // len(kinds)) % len(factors)]
        W = int(rng.integers(1, 3))
        raw = [rp.gen_window(rng, N=int(rng.choice([128, 200])), dt=0.01, scale=1.0) for _ in range(W)]
        N0 = len(raw[0][0])
        raw = [tuple(c[:N0] if hasattr(c, "__len__") else c for c in r) for r in raw]
        rows = lambda h: np.concatenate([x.amplitude for x in h.hvsrs], axis=1) if kind == "azimuthal" else np.atleast_2d(h.amplitude)
        base = rows(hvsrpy.process([rp.mk_record(*r) for r in raw], mk()))
        scaled = rows(hvsrpy.process([rp.mk_record(k * r[0], k * r[1], k * r[2], r[3]) for r in raw], mk()))
        cl.case((kind, k, W))
        if not (np.all(np.isfinite(base)) and close(scaled, base, 1e-8, 0)):
            cl.fail(f"hvsrpy.processing.process[{kind}]", f"all three components multiplied by {k:g}: the curves change (max rel. deviation "
                    f"{float(np.max(np.abs(scaled / base - 1))):.3g})", signature=f"common-factor:{kind}", factor=k)
            return


def mixed_steps(cl, rng, n, replay):
    """recordings with different time steps (frequency-domain resampling): curve i is the ratio of recording i"""
    import hvsrpy
    pats = [(0, 1, 1, 0), (0, 1, 0, 0), (1, 0, 0, 1), (0, 1, 2), (2, 0, 1), (1, 0, 1, 1), (0, 0, 1), (1, 2, 0, 1)]
    dts = [0.01, 0.02, 0.005]
    kinds = ["traditional", "single_azimuth", "rotdpp", "azimuthal"]
    fcs = np.array([1.5, 3.0, 6.0, 12.0, 20.0])
    sm = dict(operator="konno_and_ohmachi", bandwidth=25., center_frequencies_in_hz=fcs)
    for j in range(n):
        pat = pats[j % len(pats)]
        kind = kinds[(j // len(pats)) % len(kinds)]
        raw = [rp.gen_window(rng, N=int(rng.integers(80, 200)), dt=dts[p], scale=1.0) for p in pat]
        recs = [rp.mk_record(*r) for r in raw]
        width = 0.1
        if kind == "traditional":
            s = hvsrpy.HvsrTraditionalProcessingSettings(smoothing=sm, method_to_combine_horizontals="squared_average")
            ref = lambda r, n_: rp.curve_traditional(*r[:3], r[3], n_, "squared_average", width, "konno_and_ohmachi", 25., fcs)[0]
        elif kind == "single_azimuth":
            s = hvsrpy.HvsrTraditionalSingleAzimuthProcessingSettings(smoothing=sm, azimuth_in_degrees=40.)
            ref = lambda r, n_: rp.curve_single_azimuth(*r[:3], r[3], n_, 40., width, "konno_and_ohmachi", 25., fcs)[0]
        elif kind == "rotdpp":
            azs = np.array([0., 50., 100., 150.])
            s = hvsrpy.HvsrTraditionalRotDppProcessingSettings(smoothing=sm, azimuths_in_degrees=azs, ppth_percentile_for_rotdpp_computation=70.)
            ref = lambda r, n_: rp.curve_rotdpp(*r[:3], r[3], n_, azs, 70., width, "konno_and_ohmachi", 25., fcs)[0]
        else:
            azs = np.array([10., 95.])
            s = hvsrpy.HvsrAzimuthalProcessingSettings(smoothing=sm, azimuths_in_degrees=azs)
            ref = lambda r, n_: np.concatenate([rp.curve_single_azimuth(*r[:3], r[3], n_, a, width, "konno_and_ohmachi", 25., fcs)[0] for a in azs])
        h = hvsrpy.process(recs, s)
        n_used = s.fft_settings["n"]
        rows = np.concatenate([x.amplitude for x in h.hvsrs], axis=1) if kind == "azimuthal" else h.amplitude
        cl.case((pat, kind, j))
        if rows.shape[0] != len(raw):
            cl.fail(f"hvsrpy.processing.process[{kind}]", "number of curves", signature=f"mixed:{kind}:count")
            return
        for i, r in enumerate(raw):
            if not close(rows[i], ref(r, n_used), rtol=RTOL, atol=0):
                cl.fail(f"hvsrpy.processing.process[{kind}]", f"time-step pattern {pat}: curve {i} is not the spectral ratio of recording {i}",
                        signature=f"mixed:{kind}", pattern=pat, row=i)
                return


def fft_history(cl, rng, n, replay):
    """Zero padding, never truncation, also when a settings object is reused for longer windows."""
    import hvsrpy
    for j in range(max(2, n // 4)):
        dt = 0.01
        N1, N2 = int(rng.integers(40, 120)), int(rng.integers(200, 400))
        fcs = np.array([4.0, 8.0, 16.0, 30.0])
        s = hvsrpy.HvsrTraditionalProcessingSettings(window_type_and_width=["tukey", 0.1], fft_settings=dict(n=None),
                                                     smoothing=dict(operator="konno_and_ohmachi", bandwidth=10., center_frequencies_in_hz=fcs))
        r1 = rp.gen_window(rng, N=N1, dt=dt)
        r2 = rp.gen_window(rng, N=N2, dt=dt)
        hvsrpy.process([rp.mk_record(*r1)], s)
        h = hvsrpy.process([rp.mk_record(*r2)], s)
        n_used = s.fft_settings["n"]
        cl.case((N1, N2))
        if n_used < N2:
            cl.fail("hvsrpy.processing.prepare_fft_settings", f"FFT length {n_used} below the window length {N2} after the settings were used "
                    f"for a {N1}-sample window (truncation instead of zero padding)", signature="fft_history")
            return
        want, m, _ = rp.curve_traditional(*r2[:3], dt, n_used, "geometric_mean", 0.1, "konno_and_ohmachi", 10., fcs)
        if not close(h.amplitude[0], want, rtol=RTOL, atol=0):
            cl.fail("hvsrpy.processing.traditional_hvsr_processing", "curve after reusing the settings differs from the definition", signature="fft_history:curve")
            return


def scaling(cl, rng, n, replay):
    """statement consequences evaluated natively: common factor, horizontal/vertical scaling, proportional components."""
    import hvsrpy
    methods = ["arithmetic_mean", "squared_average", "geometric_mean", "total_horizontal_energy", "maximum_horizontal_value"]
    for j in range(n):
        ns, ew, vt, dt = rp.gen_window(rng, N=int(rng.integers(60, 200)), scale=1.0)
        method = methods[j % len(methods)]
        fcs = np.array([1.0, 3.0, 7.0, 12.0])
        mk = lambda: hvsrpy.HvsrTraditionalProcessingSettings(method_to_combine_horizontals=method, smoothing=dict(
            operator="konno_and_ohmachi", bandwidth=40., center_frequencies_in_hz=fcs))
        k = float(rng.choice([1e-3, 0.5, 3.0, 1e4, -2.0]))
        base = hvsrpy.process([rp.mk_record(ns, ew, vt, dt)], mk()).amplitude[0]
        allk = hvsrpy.process([rp.mk_record(k * ns, k * ew, k * vt, dt)], mk()).amplitude[0]
        hk = hvsrpy.process([rp.mk_record(k * ns, k * ew, vt, dt)], mk()).amplitude[0]
        vk = hvsrpy.process([rp.mk_record(ns, ew, k * vt, dt)], mk()).amplitude[0]
        cl.case((method, k))
        if not (close(allk, base, 1e-8) and close(hk, abs(k) * base, 1e-8) and close(vk, base / abs(k), 1e-8)):
            cl.fail("hvsrpy.processing.traditional_hvsr_processing", "scaling consequences (common factor / horizontals / vertical) violated",
                    signature="scaling", method=method, k=k)
            return
        A, B, C = float(rng.uniform(0.2, 3)), float(rng.uniform(0.2, 3)), float(rng.uniform(0.5, 2))
        flat = hvsrpy.process([rp.mk_record(A * vt, B * vt, C * vt, dt)], mk()).amplitude[0]
        want = rp.combine(method, np.array([A]), np.array([B]))[0] / C
        if not close(flat, np.full_like(flat, want), 1e-8):
            cl.fail("hvsrpy.processing.traditional_hvsr_processing", f"proportional components: expected flat {want}", signature="closed-form",
                    method=method, observed=flat)
            return


B = "1-3 windows of 40-300 samples, dt in {0.01,0.005,0.02,1/75}, all methods+aliases, 7 operators x 2-3 bandwidths, 4 Tukey widths, 4 fft_settings shapes"
CLAUSES = [
    ("bounded:process(traditional) == smoothed combined horizontal / smoothed vertical", "bounded", B, "hvsrpy.processing.traditional_hvsr_processing", (36, 900), traditional),
    ("bounded:process(single azimuth) == definition", "bounded", B, "hvsrpy.processing.traditional_single_azimuth_hvsr_processing", (16, 400), single_azimuth),
    ("bounded:process(rotdpp) == percentile of smoothed single-azimuth rows / smoothed vertical", "bounded", B, "hvsrpy.processing.traditional_rotdpp_hvsr_processing", (15, 400), rotdpp),
    ("bounded:process(azimuthal) == stack of single-azimuth results", "bounded", B, "hvsrpy.processing.azimuthal_hvsr_processing", (8, 200), azimuthal),
    ("bounded:process(diffuse field) == sqrt(S(Pns+Pew)/S(Pvt))", "bounded", B, "hvsrpy.processing.diffuse_field_hvsr_processing", (12, 300), diffuse),
    ("bounded:mixed time steps: curve i == spectral ratio of recording i", "bounded", "8 time-step arrangements of 3-4 recordings (non-involutive groupings), 4 methods",
     "hvsrpy.processing.process", (32, 320), mixed_steps),
    ("bounded:FFT length never below the window length across reuse of a settings object", "bounded", "pairs of window lengths 40-120 then 200-400", "hvsrpy.processing.prepare_fft_settings", (8, 100), fft_history),
    ("bounded:a common factor on all three components leaves every curve unchanged (every processing path, factors 1e-9 .. 1e6)", "bounded",
     "5 processing paths x 5 factors, 1-2 windows", "hvsrpy.processing.process", (25, 250), common_factor),
    ("cross-check:scaling and closed-form consequences", "cross-check", "5 methods x 5 factors, proportional components", "hvsrpy.processing.traditional_hvsr_processing", (10, 200), scaling),
]

if __name__ == "__main__":
    run(CLAUSES)
