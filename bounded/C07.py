"""C07 native harness: readers put the stored samples on the right components, for files written from a grammar."""
import io
import itertools
import os
import tempfile

import numpy as np

from bounded.common import close, run

PERMS = list(itertools.permutations(range(3)))


def f32(x):
    return np.asarray(x, dtype=np.float32).astype(np.float64)


# ---------------------------------------------------------------- SAF
def write_saf(rng, npts, fs, chans, north_rot, eol, data, header_npts=None):
    """chans: tuple giving the channel letter of CH0, CH1, CH2 (a permutation of V, N, E); data columns follow CH0..CH2"""
    lines = ["SESAME ASCII data format (saf) v. 1    (this line must not be modified)", f"SAMP_FREQ = {fs}",
             f"NDAT = {npts if header_npts is None else header_npts:010d}" if rng.random() < 0.5 else f"NDAT = {npts if header_npts is None else header_npts}",
             "START_TIME = 2021 11 22 13 31 10.000", "SENSOR_TYPE = Velocity", "STA_CODE = X-02"]
    if north_rot is not None:
        lines.append(f"NORTH_ROT = {north_rot}")
    lines.append("UNITS = Counts")
    for i, c in enumerate(chans):
        lines.append(f"CH{i}_ID = {c}")
    lines.append("####--------------------------------")
    for row in data:
        lines.append(f"{row[0]} {row[1]} {row[2]}")
    return eol.join(lines) + eol


def saf_clause(cl, rng, n, replay):
    import hvsrpy
    d = tempfile.mkdtemp(prefix="c07_")
    try:
        for j in range(n):
            npts = int(rng.integers(1, 40))
            fs = int(rng.choice([1, 50, 75, 100, 128, 250, 1000]))
            perm = PERMS[j % 6]
            chans = tuple("VNE"[k] for k in perm)          # letter of CH0, CH1, CH2
            north_rot = [None, 0, 30, 75, 275][j % 5]
            eol = "\n" if j % 3 else "\r\n"
            data = rng.integers(-2 ** 31 + 1, 2 ** 31 - 1, size=(npts, 3))
            if j % 4 == 0:
                data = rng.integers(-20000, 20000, size=(npts, 3))
            bad_count = (j % 11 == 10)
            text = write_saf(rng, npts, fs, chans, north_rot, eol, data, header_npts=((npts + 1 if (j % 2 or npts < 4) else npts - 2) if bad_count else None))
            fn = os.path.join(d, f"f{j}.saf")
            with open(fn, "w", newline="") as f:
                f.write(text)
            explicit = [None, 0, 0.0, 12.5, 400][j % 5] if j % 2 else None
            src = fn if j % 3 else io.StringIO(text)
            try:
                r = hvsrpy.read_single(src, degrees_from_north=explicit)
                err = None
            except Exception as ex:
                r, err = None, ex
            cl.case((j, npts, fs, chans, north_rot, explicit, eol == "\n", bad_count))
            n_idx, e_idx = chans.index("N"), chans.index("E")
            if bad_count:
                if err is None:
                    cl.fail("hvsrpy.data_wrangler._read_saf", "sample count disagrees with NDAT but a recording was returned", signature="saf:count")
                    return
                continue
            if explicit is not None:
                want_deg = explicit
            elif north_rot is None:
                want_deg = 0.0
            elif n_idx == 1:
                want_deg = north_rot
            elif e_idx == 1:
                want_deg = north_rot + 90.0
            else:
                want_deg = "error"
            if want_deg == "error":
                if err is None:
                    cl.fail("hvsrpy.data_wrangler._read_saf", "CH1 is the vertical (orientation undefined) but a recording was returned", signature="saf:orientation-error")
                    return
                continue
            if err is not None:
                cl.fail("hvsrpy.data_wrangler._read_saf", f"{type(err).__name__}: {err}", signature="saf:exception", chans=chans, north_rot=north_rot, explicit=explicit)
                return
            want_deg = want_deg - 360 * (want_deg // 360)
            ok = (np.array_equal(r.vt.amplitude, f32(data[:, chans.index("V")])) and np.array_equal(r.ns.amplitude, f32(data[:, n_idx]))
                  and np.array_equal(r.ew.amplitude, f32(data[:, e_idx])) and r.ns.dt_in_seconds == 1 / fs and r.vt.dt_in_seconds == 1 / fs)
            if not ok:
                cl.fail("hvsrpy.data_wrangler._read_saf", f"channels {chans}: components do not hold the samples stored for N / E / V (single precision) with dt = 1/{fs}",
                        signature="saf:samples", chans=chans)
                return
            if not (abs(r.degrees_from_north - want_deg) <= 1e-9):
                cl.fail("hvsrpy.data_wrangler._read_saf", f"orientation {r.degrees_from_north}, expected {want_deg} (NORTH_ROT={north_rot}, CH ids {chans}, explicit={explicit})",
                        signature="saf:orientation", north_rot=north_rot, explicit=explicit, chans=chans)
                return
    finally:
        import shutil
        shutil.rmtree(d, ignore_errors=True)


# ---------------------------------------------------------------- MiniShark
def minishark_clause(cl, rng, n, replay):
    import hvsrpy
    for j in range(n):
        npts = int(rng.integers(1, 40))
        fs = int(rng.choice([50, 100, 250, 512]))
        gain, conv = int(rng.choice([1, 2, 8, 16])), int(rng.choice([1, 100, 419430]))
        eol = "\n" if j % 2 else "\r\n"
        data = rng.integers(-8_000_000, 8_000_000, size=(npts, 3))
        bad = j % 9 == 8
        hdr = ["#MiniShark", f"#Sample rate (sps):\t{fs}", f"#Gain:\t{gain}", f"#Conversion factor:\t{conv}", f"#Sample number:\t{npts + (2 if bad else 0)}", "#Channels:\tZ N E"]
        text = eol.join(hdr + [f"{a}\t{b}\t{c}" for a, b, c in data]) + eol
        explicit = [None, 0, 33.0][j % 3]
        try:
            r = hvsrpy.read_single(io.StringIO(text), degrees_from_north=explicit)
            err = None
        except Exception as ex:
            r, err = None, ex
        cl.case((j, npts, fs, gain, conv, bad))
        if bad:
            if err is None:
                cl.fail("hvsrpy.data_wrangler._read_minishark", "sample count disagrees with the header but a recording was returned", signature="mshark:count")
                return
            continue
        if err is not None:
            cl.fail("hvsrpy.data_wrangler._read_minishark", f"{type(err).__name__}: {err}", signature="mshark:exception")
            return
        want = (f32(data).astype(np.float32) / np.float32(gain)) / np.float32(conv)
        ok = all(np.allclose(getattr(r, c).amplitude, want[:, k].astype(np.float64), rtol=3e-7, atol=0) for k, c in enumerate(("vt", "ns", "ew")))
        if not ok or r.ns.dt_in_seconds != 1 / fs or not (abs(r.degrees_from_north - (0.0 if explicit is None else explicit)) <= 1e-12):
            cl.fail("hvsrpy.data_wrangler._read_minishark", "columns are not (vertical, north, east) / gain / conversion to single precision, or dt / orientation wrong",
                    signature="mshark:samples", gain=gain, conversion=conv)
            return


# ---------------------------------------------------------------- PEER
def write_peer(npts, dt, code, samples, eol, header_npts=None):
    lines = ["PEER NGA STRONG MOTION DATABASE RECORD", f"Synthetic-01, 1/17/1994, Somewhere - School, {code}", "VELOCITY TIME SERIES IN UNITS OF CM/S",
             f"NPTS=   {npts if header_npts is None else header_npts}, DT=   {dt:.4f} SEC".replace("0.", ".", 1) + " " * 20]
    row = []
    for k, v in enumerate(samples):
        s = f"{v:.7E}"
        m, e = s.split("E")
        sgn = "-" if v < 0 else " "
        mant = f"{abs(float(m)) / 10:.7f}"[1:]          # .dddddddE+xx style
        row.append(f"  {sgn}{mant}E{int(e) + 1:+03d}")
        if len(row) == 5:
            lines.append("".join(row))
            row = []
    if row:
        lines.append("".join(row))
    return eol.join(lines) + eol


def peer_value(v):
    s = f"{v:.7E}"
    m, e = s.split("E")
    mant = f"{abs(float(m)) / 10:.7f}"[1:]
    return float(("-" if v < 0 else "") + mant + f"E{int(e) + 1:+03d}")


def peer_clause(cl, rng, n, replay):
    import hvsrpy
    d = tempfile.mkdtemp(prefix="c07_")
    try:
        layouts = [("UP", 360, 90), ("UP", 0, 90), ("VER", 45, 315), ("UP", 345, 75), ("UP", 330, 60), ("VER", 270, 360), ("UP", 10, 100), ("UP", 180, 270),
                   ("HHZ", "HHN", "HHE"), ("BHZ", "BHN", "BHE"), ("HNZ", "HNE", "HNN"), ("UP", 95, 5)]
        for j in range(n):
            lay = layouts[j % len(layouts)]
            numeric = not isinstance(lay[1], str)
            dt = float(rng.choice([0.02, 0.005, 0.01]))
            lens = [int(rng.integers(3, 30)) for _ in range(3)]
            samples = [rng.normal(0, 10.0 ** rng.integers(-4, 3), L) for L in lens]
            eol = "\n" if j % 2 else "\r\n"
            bad = j % 13 == 12
            files = []
            for k in range(3):
                code = lay[k] if isinstance(lay[k], str) else str(lay[k])
                fn = os.path.join(d, f"p{j}_{k}.vt2")
                with open(fn, "w", newline="") as f:
                    # a header count that disagrees with the samples present, in either direction (one sample missing / two surplus samples)
                    f.write(write_peer(lens[k], dt, code, samples[k], eol, header_npts=((lens[k] + 1 if ((j // 13) % 2 == 0 or lens[k] < 4) else lens[k] - 2) if bad and k == 1 else None)))
                files.append(fn)
            order = PERMS[(j // len(layouts)) % 6]
            explicit = [None, 25.0, 0.0, 0][(j // 3) % 4]        # an explicit zero is an orientation like any other
            try:
                r = hvsrpy.read_single([files[o] for o in order], degrees_from_north=explicit)
                err = None
            except Exception as ex:
                r, err = None, ex
            cl.case((j, lay, order, explicit, bad))
            if bad:
                if err is None:
                    cl.fail("hvsrpy.data_wrangler._read_peer", "NPTS disagrees with the number of samples but a recording was returned", signature="peer:count")
                    return
                continue
            if err is not None:
                cl.fail("hvsrpy.data_wrangler._read_peer", f"{type(err).__name__}: {err} for layout {lay}", signature="peer:exception", layout=lay, order=order)
                return
            stored = [np.array([peer_value(v) for v in s]) for s in samples]
            if numeric:
                az = [lay[1] % 360, lay[2] % 360]
                rel = [a - 360 if a > 180 else a for a in az]
                if abs(rel[0]) == abs(rel[1]):
                    ns_k = None            # two horizontals equally far from north: either may be north, they must be different files
                else:
                    ns_k = 1 if abs(rel[0]) < abs(rel[1]) else 2
                want_deg = None if ns_k is None else float(lay[ns_k] % 360)
            else:
                ns_k = [k for k in (1, 2) if lay[k][-1] == "N"][0]
                want_deg = 0.0
            m = min(lens)
            if not np.array_equal(r.vt.amplitude, stored[0][:m]):
                cl.fail("hvsrpy.data_wrangler._read_peer", "vertical component does not hold the samples of the UP/VER/..Z file", signature="peer:vertical", layout=lay, order=order)
                return
            if ns_k is None:
                cands = [(1, 2), (2, 1)]
            else:
                cands = [(ns_k, 3 - ns_k)]
            if not any(np.array_equal(r.ns.amplitude, stored[a][:m]) and np.array_equal(r.ew.amplitude, stored[b][:m]) for a, b in cands):
                cl.fail("hvsrpy.data_wrangler._read_peer", f"layout {lay}, file order {order}: north = the horizontal nearest north (mod 360), east = the other one - not what was returned",
                        signature="peer:horizontals", layout=lay, order=order)
                return
            if r.ns.dt_in_seconds != dt:
                cl.fail("hvsrpy.data_wrangler._read_peer", "time step", signature="peer:dt")
                return
            if explicit is not None:
                want_deg = explicit
            if want_deg is not None and not (abs(r.degrees_from_north - want_deg) <= 1e-9):
                cl.fail("hvsrpy.data_wrangler._read_peer", f"orientation {r.degrees_from_north}, expected {want_deg} for layout {lay}", signature="peer:orientation", layout=lay)
                return
    finally:
        import shutil
        shutil.rmtree(d, ignore_errors=True)


# ---------------------------------------------------------------- obspy-backed formats
def obspy_clause(cl, rng, n, replay):
    import hvsrpy
    import obspy
    d = tempfile.mkdtemp(prefix="c07_")
    try:
        for j in range(n):
            npts = int(rng.integers(10, 200))
            fs = float(rng.choice([50., 100., 200., 75.]))
            chan_sets = [("HHN", "HHE", "HHZ"), ("BHN", "BHE", "BHZ"), ("EHN", "EHE", "EHZ"), ("HNN", "HNE", "HNZ")]
            chans = chan_sets[j % 4]
            data = {c: rng.normal(0, 1000, npts).astype(np.float32 if j % 2 else np.float64) for c in chans}
            if j % 5 == 4:       # integer counts with a large offset (beyond what single precision holds exactly); SAC stores single precision anyway
                data = {c: (rng.integers(-5000, 5000, npts) + int(rng.choice([20_000_000, -33_554_433, 16_777_217]))).astype(np.int32) for c in chans}
            order = PERMS[j % 6]
            traces = [obspy.Trace(data=data[chans[o]].copy(), header=dict(channel=chans[o], station="ST", network="NW", sampling_rate=fs)) for o in order]
            fmt = ["mseed1", "mseed3", "sac_little", "sac_big", "sac_mixed"][(j // 2) % 5]       # sac_mixed: the three files differ in byte order
            explicit = [None, 40.0, 0.0][j % 3]
            try:
                if fmt == "mseed1":
                    fn = os.path.join(d, f"m{j}.mseed")
                    obspy.Stream(traces).write(fn, format="MSEED")
                    src = fn
                elif fmt == "mseed3":
                    src = []
                    for k, t in enumerate(traces):
                        fn = os.path.join(d, f"m{j}_{k}.mseed")
                        obspy.Stream([t]).write(fn, format="MSEED")
                        src.append(fn)
                else:
                    src = []
                    for k, t in enumerate(traces):
                        fn = os.path.join(d, f"s{j}_{k}.sac")
                        t2 = t.copy()
                        t2.data = t2.data.astype(np.float32)
                        obspy.Stream([t2]).write(fn, format="SAC", byteorder=({"sac_little": 0, "sac_big": 1}.get(fmt, (j + k) % 2)))
                        src.append(fn)
                as_stream = j % 3 == 1
                if as_stream:
                    # the binary formats may also be handed over as in-memory streams (io.BytesIO), one per file
                    import io
                    load = lambda name: io.BytesIO(open(name, "rb").read())
                    src = load(src) if isinstance(src, str) else [load(x) for x in src]
                r = hvsrpy.read_single(src, degrees_from_north=explicit)
            except Exception as ex:
                cl.fail("hvsrpy.data_wrangler.read_single", f"{fmt}{' (in-memory streams)' if j % 3 == 1 else ''}: {type(ex).__name__}: {ex}", signature=f"obspy:{fmt}:exception", order=order)
                return
            cl.case((j, fmt, chans, order, explicit))
            want = {c: data[c].astype(np.float32).astype(np.float64) if fmt.startswith("sac") else data[c].astype(np.float64) for c in chans}
            if not (np.array_equal(r.ns.amplitude, want[chans[0]]) and np.array_equal(r.ew.amplitude, want[chans[1]]) and np.array_equal(r.vt.amplitude, want[chans[2]])
                    and abs(r.ns.dt_in_seconds - 1 / fs) < (1e-4 / fs if fmt.startswith("sac") else 1e-12) and abs(r.degrees_from_north - (0.0 if explicit is None else explicit)) < 1e-12):
                cl.fail("hvsrpy.data_wrangler._arrange_traces", f"{fmt}, trace/file order {order}: components do not hold the samples of the channels ending in N / E / Z",
                        signature=f"obspy:{fmt}", order=order, channels=chans)
                return
            # missing / duplicated component
            if fmt == "mseed3" and j % 3 == 0:
                try:
                    hvsrpy.read_single([src[0], src[0], src[1]])
                    cl.fail("hvsrpy.data_wrangler._arrange_traces", "a duplicated component yielded a recording", signature="obspy:duplicate")
                    return
                except Exception:
                    pass
        # gcf example file and an unrecognised file
        import glob
        g = glob.glob(os.path.join(os.path.dirname(hvsrpy.__file__), "..", "test", "data", "input", "gcf", "*.gcf"))
        if g:
            st = obspy.read(g[0], format="GCF")
            r = hvsrpy.read_single(g[0])
            by = {t.stats.channel[-1]: t.data.astype(float) for t in st}
            cl.case("gcf")
            if not (np.array_equal(r.ns.amplitude, by["N"]) and np.array_equal(r.ew.amplitude, by["E"]) and np.array_equal(r.vt.amplitude, by["Z"])):
                cl.fail("hvsrpy.data_wrangler._read_gcf", "gcf example: components / channels", signature="obspy:gcf")
                return
        fn = os.path.join(d, "junk.txt")
        with open(fn, "w") as f:
            f.write("this is not a seismic recording\n1 2 3\n")
        cl.case("junk")
        try:
            hvsrpy.read_single(fn)
            cl.fail("hvsrpy.data_wrangler.read_single", "an unrecognised file yielded a recording", signature="read_single:junk")
            return
        except Exception:
            pass
    finally:
        import shutil
        shutil.rmtree(d, ignore_errors=True)


def read_args_clause(cl, rng, n, replay):
    """read() hands each recording its own degrees_from_north and reader options, in order, scalar or per recording"""
    import hvsrpy
    texts = []
    for k in range(3):
        data = rng.integers(-1000, 1000, size=(5 + k, 3))
        texts.append(write_saf(rng, 5 + k, 100, ("V", "N", "E"), 10 * (k + 1), "\n", data))
    d = tempfile.mkdtemp(prefix="c07_")
    try:
        fns = []
        for k, t in enumerate(texts):
            fn = os.path.join(d, f"r{k}.saf")
            open(fn, "w").write(t)
            fns.append(fn)
        combos = [(None, None), (15.0, None), ([5.0, 6.0, 7.0], None), (None, {"format": "MSEED"}), (20, [{"format": "MSEED"}] * 3),
                  ([1.0, 2.0, 3.0], [{"format": "MSEED"}, None, {"format": "SAC"}]), ((4.0, 5.0, 6.0), None), (np.array([7.0, 8.0, 9.0]), None),
                  (np.float64(3.5), None), (0, None), ([0, 0, 0], None),
                  # per recording, some entries None: those recordings keep the orientation their file states (NORTH_ROT here), the others get their number
                  ([None, 6.0, None], None), ((2.5, None, 0.0), [None, {"format": "MSEED"}, None]), ([None, None, None], None)]
        for j, (deg, kw) in enumerate(combos):
            for wrap in (True, False):
                try:
                    out = hvsrpy.read([[f] for f in fns] if wrap else fns, obspy_read_kwargs=kw, degrees_from_north=deg)
                except Exception as ex:
                    cl.fail("hvsrpy.data_wrangler.read", f"degrees_from_north={deg!r}, obspy_read_kwargs={kw!r}: {type(ex).__name__}: {ex}", signature="read:exception")
                    return
                cl.case((j, wrap))
                if len(out) != 3:
                    cl.fail("hvsrpy.data_wrangler.read", "number of recordings", signature="read:count")
                    return
                for k, r in enumerate(out):
                    mine = deg if (deg is None or not isinstance(deg, (list, tuple, np.ndarray))) else deg[k]
                    want = (10.0 * (k + 1)) if mine is None else float(mine)
                    if not (abs(r.degrees_from_north - want) <= 1e-12) or r.ns.n_samples != 5 + k:       # (a NaN orientation fails the comparison)
                        cl.fail("hvsrpy.data_wrangler.read", f"recording {k} got degrees_from_north={r.degrees_from_north}, expected {want} (argument {deg!r}, kwargs {kw!r})",
                                signature="read:degrees", argument=repr(deg), kwargs=repr(kw))
                        return
        # one file listed several times, each time with reader options of its own (same option names, different values - time spans of one miniSEED file): every
        # recording holds the samples of *its* span
        import obspy
        t0 = obspy.UTCDateTime(2020, 1, 1)
        for trial in range(3):
            npts, fs = 400, 100.0
            data = {c: rng.normal(0, 1000, npts) for c in ("HHN", "HHE", "HHZ")}
            fn = os.path.join(d, f"spans{trial}.mseed")
            obspy.Stream([obspy.Trace(data=data[c].copy(), header=dict(channel=c, station="ST", network="NW", sampling_rate=fs, starttime=t0)) for c in data]).write(fn, format="MSEED")
            a = sorted(int(x) for x in rng.choice(np.arange(10, 390), size=4, replace=False))
            spans = [(a[0], a[1]), (a[2], a[3]), (a[1], a[2])]
            kws = [dict(starttime=t0 + lo / fs, endtime=t0 + hi / fs) for lo, hi in spans]
            deg = [None, 12.0][trial % 2]
            try:
                out = hvsrpy.read([fn, fn, fn], obspy_read_kwargs=kws, degrees_from_north=deg)
            except Exception as ex:
                cl.fail("hvsrpy.data_wrangler.read", f"one file listed three times with time spans of its own: {type(ex).__name__}: {ex}", signature="read:same-file:exception")
                return
            cl.case(("same file, own spans", trial))
            for k, ((lo, hi), r) in enumerate(zip(spans, out)):
                if not (r.ns.n_samples == hi - lo + 1 and np.array_equal(r.ns.amplitude, data["HHN"][lo:hi + 1]) and np.array_equal(r.vt.amplitude, data["HHZ"][lo:hi + 1])):
                    cl.fail("hvsrpy.data_wrangler.read", f"entry {k} of [file, file, file] with the time spans {spans} (in samples): the recording does not hold the samples of its own span "
                            f"({r.ns.n_samples} samples, expected {hi - lo + 1})", signature="read:same-file-own-options", spans=spans, degrees_from_north=deg)
                    return
    finally:
        import shutil
        shutil.rmtree(d, ignore_errors=True)


CLAUSES = [
    ("bounded:SAF files from a grammar (6 channel orders, NORTH_ROT present/absent, explicit orientation incl. 0, both line endings, count mismatch)", "bounded",
     "1-40 samples, 7 sampling rates, int32 range samples", "hvsrpy.data_wrangler._read_saf", (120, 3000), saf_clause),
    ("bounded:MiniShark files from a grammar (gain, conversion factor, count mismatch)", "bounded", "1-40 samples, 4 rates", "hvsrpy.data_wrangler._read_minishark", (36, 600), minishark_clause),
    ("bounded:PEER triples from a grammar (12 component-code layouts incl. counter-clockwise and equidistant azimuths, 6 file orders, unequal lengths)", "bounded",
     "3-30 samples per file", "hvsrpy.data_wrangler._read_peer", (72, 1500), peer_clause),
    ("bounded:miniSEED (1 and 3 files) and SAC (both byte orders) written with obspy in all 6 trace/file orders; GCF example; unrecognised file", "bounded",
     "10-200 samples, 4 channel-naming variants", "hvsrpy.data_wrangler._arrange_traces", (24, 480), obspy_clause),
    ("bounded:read() hands every recording its own degrees_from_north / reader options (scalar, list, tuple, array, numpy scalar, 0)", "bounded", "14 argument combinations (per-recording lists with None entries included) x wrapped/unwrapped names",
     "hvsrpy.data_wrangler.read", (1, 1), read_args_clause),
]

if __name__ == "__main__":
    run(CLAUSES)
