"""C14 native harness: Voronoi weights == nearest-sensor area fractions (independent half-plane clipping); Monte-Carlo statistics."""
import numpy as np

from bounded.common import close, run
from bounded import stats_ref as sr


# ---------------------------------------------------------------- independent planar geometry (convex polygons only)
def convex_hull(pts):
    pts = sorted(set(map(tuple, pts)))

    def cross(o, a, b):
        return (a[0] - o[0]) * (b[1] - o[1]) - (a[1] - o[1]) * (b[0] - o[0])
    lower, upper = [], []
    for p in pts:
        while len(lower) >= 2 and cross(lower[-2], lower[-1], p) <= 0:
            lower.pop()
        lower.append(p)
    for p in reversed(pts):
        while len(upper) >= 2 and cross(upper[-2], upper[-1], p) <= 0:
            upper.pop()
        upper.append(p)
    return np.array(lower[:-1] + upper[:-1], dtype=float)        # counter-clockwise


def area(poly):
    if len(poly) < 3:
        return 0.0
    x, y = poly[:, 0], poly[:, 1]
    return 0.5 * abs(np.dot(x, np.roll(y, -1)) - np.dot(y, np.roll(x, -1)))


def clip_halfplane(poly, a, b):
    """keep {x : a . x <= b} (Sutherland-Hodgman, convex input)"""
    out = []
    n = len(poly)
    for i in range(n):
        p, q = poly[i], poly[(i + 1) % n]
        fp, fq = np.dot(a, p) - b, np.dot(a, q) - b
        if fp <= 0:
            out.append(p)
        if (fp < 0 < fq) or (fq < 0 < fp):
            t = fp / (fp - fq)
            out.append(p + t * (q - p))
    return np.array(out) if out else np.zeros((0, 2))


def inside_strict(poly, p):
    n = len(poly)
    for i in range(n):
        a, b = poly[i], poly[(i + 1) % n]
        if (b[0] - a[0]) * (p[1] - a[1]) - (b[1] - a[1]) * (p[0] - a[0]) <= 0:
            return False
    return True


def reference_weights(coords, boundary):
    hull = convex_hull(boundary)
    keep = [i for i, p in enumerate(coords) if inside_strict(hull, p)]
    total = area(hull)
    w = []
    for i in keep:
        poly = hull.copy()
        for j in keep:
            if j == i:
                continue
            a = 2 * (coords[j] - coords[i])
            b = np.dot(coords[j], coords[j]) - np.dot(coords[i], coords[i])
            poly = clip_halfplane(poly, a, b)
            if len(poly) < 3:
                break
        w.append(area(poly) / total)
    return np.array(w), keep


def gen_layout(rng, j):
    n_in = int(rng.integers(4, 12))
    kind = j % 4
    if j % 5 == 4:
        w_, h_ = float(rng.uniform(25, 60)), float(rng.uniform(20, 40))
        boundary = np.array([[0, 0], [w_, 0], [w_, h_], [0, h_]])                         # a small rectangular site, corners listed SW, SE, NE, NW (an open ring)
    elif kind == 0:
        boundary = rng.uniform(0, 100, size=(int(rng.integers(4, 9)), 2))
    elif kind == 1:
        boundary = np.array([[0, 0], [300, 0], [300, 20], [0, 20.]])                      # elongated site
    elif kind == 2:
        ang = np.linspace(0, 2 * np.pi, 6)[:-1] + 0.3
        boundary = np.c_[60 * np.cos(ang) + 10, 35 * np.sin(ang) + 200]                   # pentagon far off the diagonal
    else:
        boundary = np.array([[0, 0], [80, 10], [100, 90], [30, 120], [-20, 60.]])
    hull = convex_hull(boundary)
    c = hull.mean(axis=0)
    pts = []
    tries = 0
    while len(pts) < n_in and tries < 5000:
        tries += 1
        lam = rng.dirichlet(np.ones(len(hull)))
        p = lam @ hull
        p = c + (p - c) * rng.uniform(0.2, 0.98)
        if all(np.hypot(*(p - q)) > 1e-3 * np.ptp(hull) for q in pts):
            pts.append(p)
    outside = [c + (hull[k] - c) * rng.uniform(1.2, 2.0) for k in range(int(rng.integers(0, 3)))]
    coords = np.array(pts + outside)
    perm = rng.permutation(len(coords))
    return coords[perm], boundary


def voronoi_clause(cl, rng, n, replay):
    from hvsrpy.hvsr_spatial import HvsrSpatial
    for j in range(n):
        coords, boundary = gen_layout(rng, j)
        want, keep = reference_weights(coords, boundary)
        if len(keep) < 4:
            cl.skipped += 1
            continue
        variants = [("as given", coords, boundary)]
        shift = rng.uniform(-1, 1, 2) * float(rng.choice([0, 1e2, 1e4])) * np.ptp(boundary)
        variants.append(("translated", coords + shift, boundary + shift))
        if j % 5 == 4:
            # projected (UTM-like) coordinates of a small site: easting ~5e5, northing ~4.5e6 - corners tens of metres apart are "close" only relative to these
            utm = np.array([5.0e5, 4.5e6]) + rng.uniform(-1e4, 1e4, 2)
            variants.append(("translated to projected coordinates", coords + utm, boundary + utm))
        k = float(rng.choice([1e-3, 7.0, 1e3]))
        variants.append(("scaled", coords * k, boundary * k))
        perm = rng.permutation(len(coords))
        variants.append(("permuted", coords[perm], boundary))
        variants.append(("object asked about a smaller boundary first", coords, boundary))
        for what, cc, bb in variants:
            try:
                obj = HvsrSpatial(cc)
                if what.startswith("object asked"):
                    # the answer for a boundary does not depend on what the object was asked before (another boundary keeps other sensors)
                    ctr = np.asarray(bb).mean(axis=0)
                    try:
                        obj.spatial_weights(ctr + 0.55 * (np.asarray(bb) - ctr))
                    except Exception:
                        pass
                w, idx = obj.spatial_weights(bb)
            except Exception as ex:
                cl.fail("hvsrpy.hvsr_spatial.HvsrSpatial.spatial_weights", f"{what}: {type(ex).__name__}: {ex}", signature="voronoi:exception", variant=what)
                return
            cl.case((j, what))
            w = np.asarray(w, dtype=float)
            # invariance: the reference is the one computed in the original coordinates (order mapped through the permutation)
            if what == "permuted":
                inv = np.argsort(perm)
                kr = sorted(int(inv[i]) for i in keep)
                wr = np.array([want[keep.index(int(perm[t]))] for t in kr])
            else:
                wr, kr = want, keep
            if list(idx) != list(kr):
                cl.fail("hvsrpy.hvsr_spatial.HvsrSpatial._cull_points", f"{what}: returned indices {list(idx)} are not the sensors strictly inside the boundary {list(kr)}",
                        signature="voronoi:indices", variant=what)
                return
            if np.any(w < -1e-12) or abs(w.sum() - 1) > 1e-8 or not np.allclose(w, wr, rtol=1e-6, atol=1e-8):
                cl.fail("hvsrpy.hvsr_spatial.HvsrSpatial._voronoi_weights", f"{what}: weights {np.round(w, 5).tolist()} (sum {w.sum():.6f}) are not the nearest-sensor area fractions "
                        f"{np.round(wr, 5).tolist()}", signature="voronoi:weights", variant=what, coordinates=cc, boundary=bb)
                return


def montecarlo_clause(cl, rng, n, replay):
    from hvsrpy.hvsr_spatial import montecarlo_fn, _statistics
    for j in range(n):
        M = int(rng.integers(2, 8))
        nreal = int(rng.choice([1, 3, 50, 400]))
        means = rng.uniform(0.3, 3.0, M)
        stds = rng.uniform(0.05, 0.5, M) if j % 3 else np.zeros(M)
        wts = rng.uniform(0.05, 1.0, M)
        if j % 4 == 0:
            wts = wts / wts.sum() * float(rng.choice([1.0, 0.3, 5.0, 1e-3]))
        if j % 6 == 3:
            # weights as whole numbers (cell areas in square metres): 32-bit values whose squares do not fit 32 bits, 64-bit values whose squares do not fit 64 bits
            wts = rng.integers(40000, 90000, M).astype(np.int32) if (j // 6) % 2 == 0 else (rng.integers(1, 9, M) * 10 ** 10).astype(np.int64)
        dg, ds = [("lognormal", "lognormal"), ("lognormal", "normal"), ("normal", "lognormal"), ("normal", "normal")][(j // 2) % 4 if j % 6 == 3 else j % 4]
        seed = int(rng.integers(0, 10 ** 6))
        mu, sd, reals = montecarlo_fn(means, stds, wts, dg, ds, n_realizations=nreal, rng=np.random.default_rng(seed))
        mu2, sd2, reals2 = montecarlo_fn(means, stds, (wts * 7.5 if wts.dtype.kind == 'f' else wts.astype(float) * 3), dg, ds, n_realizations=nreal, rng=np.random.default_rng(seed))
        if not (np.all(np.isfinite(reals)) and np.isfinite(mu)):
            cl.skipped += 1          # a normal generator produced a non-positive value for a lognormal spatial distribution: outside the domain
            continue
        cl.case((j, M, nreal, dg, ds))
        if j % 5 == 0:
            # the numbers, not their container or dtype, decide: integer means / a plain list give what the same values as floats give
            imeans = np.array(rng.integers(1, 6, M))
            a = montecarlo_fn(imeans, stds, wts, dg, ds, n_realizations=nreal, rng=np.random.default_rng(seed))
            b = montecarlo_fn(imeans.astype(float), stds, wts, dg, ds, n_realizations=nreal, rng=np.random.default_rng(seed))
            c = montecarlo_fn([int(v) for v in imeans], list(stds), list(wts), dg, ds, n_realizations=nreal, rng=np.random.default_rng(seed))
            if np.all(np.isfinite(b[2])) and np.isfinite(b[0]) and np.isfinite(b[1]) and not (
                    np.array_equal(a[2], b[2]) and np.array_equal(c[2], b[2]) and close(a[0], b[0], 1e-12) and close(c[0], b[0], 1e-12)
                    and close(a[1], b[1], 1e-10, 1e-14) and close(c[1], b[1], 1e-10, 1e-14)):
                cl.fail("hvsrpy.hvsr_spatial.montecarlo_fn", f"integer-valued generator means {imeans.tolist()} give a different result as integers / a list than as floats: "
                        f"mean {a[0]} / {c[0]} vs {b[0]}, std {a[1]} / {c[1]} vs {b[1]}", signature="mc:dtype", generators=(dg, ds), stds=stds, n=nreal)
                return
        if not (close(mu, mu2, 1e-9) and close(sd, sd2, 1e-8, 1e-12) and np.array_equal(reals, reals2)):
            cl.fail("hvsrpy.hvsr_spatial.montecarlo_fn", "result changes when all weights are multiplied by a constant / not reproducible for a given generator",
                    signature="mc:scale-or-seed", weights=wts, generators=(dg, ds))
            return
        # independent re-computation: realisations in the spatial space, weight w_i/N per realisation
        raw = np.array([np.random.default_rng(seed).normal(0, 1, 1)])        # (generator state is consumed row by row below)
        g = np.random.default_rng(seed)
        rows = np.array([g.normal(m_, s_, size=nreal) for m_, s_ in zip(means, stds)])
        if dg == "lognormal" and ds == "normal":
            rows = np.exp(rows)
        elif dg == "normal" and ds == "lognormal":
            with np.errstate(all="ignore"):
                rows = np.log(rows)
        if not np.all(np.isfinite(rows)):
            cl.skipped += 1
            continue
        wn = wts.astype(float) / wts.astype(float).sum()
        flat_w = np.repeat(wn / nreal, nreal)
        flat = rows.ravel()
        m_spatial = np.sum(flat * flat_w)
        s_spatial = np.sqrt(np.sum(flat_w * (flat - m_spatial) ** 2) / (1 - np.sum(wn ** 2) / nreal)) if nreal * M > 1 else np.nan
        want_mu = np.exp(m_spatial) if ds == "lognormal" else m_spatial
        want_reals = np.exp(rows) if ds == "lognormal" else rows
        if not (close(mu, want_mu, 1e-9) and (nreal * M == 1 or close(sd, s_spatial, 1e-8, 1e-12)) and close(reals, want_reals, 1e-12)):
            cl.fail("hvsrpy.hvsr_spatial._statistics", f"({dg} generators, {ds} spatial): mean/std {mu}, {sd} are not the weighted mean / weighted standard deviation "
                    f"{want_mu}, {s_spatial} of the realisations in the requested space", signature="mc:statistics", weights=wts, generators=(dg, ds), n_realizations=nreal)
            return
        if not np.any(stds):
            closed = np.sum(wn * means)
            closed = {("lognormal", "lognormal"): np.exp(closed), ("normal", "normal"): closed,
                      ("lognormal", "normal"): np.sum(wn * np.exp(means)), ("normal", "lognormal"): np.exp(np.sum(wn * np.log(means)))}[(dg, ds)]
            if not close(mu, closed, 1e-10):
                cl.fail("hvsrpy.hvsr_spatial.montecarlo_fn", "zero generator standard deviations: mean is not the closed-form weighted (log-)mean", signature="mc:closed-form",
                        generators=(dg, ds), weights=wts)
                return
        for bad in ("gamma",):
            try:
                montecarlo_fn(means, stds, wts, bad, ds, n_realizations=2, rng=np.random.default_rng(0))
                cl.fail("hvsrpy.hvsr_spatial.montecarlo_fn", "unknown distribution accepted", signature="mc:unknown")
                return
            except NotImplementedError:
                pass


CLAUSES = [
    ("bounded:Voronoi weights == nearest-sensor area fractions of the boundary's convex hull; indices; order / translation / scaling invariance", "bounded",
     "4-11 sensors inside random / elongated / off-diagonal pentagon / irregular hulls, 0-2 outside, offsets up to 1e4 x the extent, scales 1e-3..1e3", "hvsrpy.hvsr_spatial.HvsrSpatial._voronoi_weights",
     (40, 1500), voronoi_clause),
    ("bounded:Monte-Carlo spatial statistics == weighted mean / std of the realisations; weight-scale invariance; seed reproducibility; zero-variance closed forms", "bounded",
     "2-7 generators, 1-400 realisations, 4 generator/spatial combinations, weights summing to 1e-3..5", "hvsrpy.hvsr_spatial._statistics", (60, 1500), montecarlo_clause),
]

if __name__ == "__main__":
    run(CLAUSES)
