"""C08 native harness: reported peaks == highest local maximum strictly inside the search range (executable form of the C08 spec)."""
import numpy as np

from bounded.common import close, run


def nearest(f, x):
    d = np.abs(f - x)
    return int(np.where(d == d.min())[0][0])


def local_maxima(a):
    """indices of local maxima with both neighbours present; a plateau is represented by its middle sample (left-middle for even
    length), exactly the documented behaviour of scipy.signal.find_peaks without filters (A-FIND-PEAKS) - written independently."""
    n = len(a)
    out = []
    i = 1
    while i < n - 1:
        if a[i - 1] < a[i]:
            j = i
            while j < n - 1 and a[j + 1] == a[j]:
                j += 1
            if j < n - 1 and a[j + 1] < a[j]:
                out.append((i + j) // 2)
            i = j + 1
        else:
            i += 1
    return out


def spec_peak(f, a, rng_hz):
    lo, hi = rng_hz
    L = 0 if lo is None else nearest(f, lo)
    U = len(f) - 1 if hi is None else nearest(f, hi)
    if U < L:
        return None
    sub = a[L:U + 1]
    P = local_maxima(sub)
    if not P:
        return None
    best = max(P, key=lambda p: (sub[p], -p))
    return (f[L + best], a[L + best])


def gen_curve(rng, m):
    kind = rng.integers(0, 7)
    x = np.linspace(0, 1, m)
    if kind == 0:
        a = np.abs(rng.normal(2, 1, m))
    elif kind == 1:
        a = 1 + 3 * np.exp(-((x - rng.uniform(0, 1)) / 0.08) ** 2) + 2 * np.exp(-((x - rng.uniform(0, 1)) / 0.05) ** 2)
    elif kind == 2:
        a = np.linspace(1, 4, m) if rng.random() < 0.5 else np.linspace(4, 1, m)       # monotone: no peak
    elif kind == 3:
        a = np.full(m, 2.0)                                                             # flat
    elif kind == 4:
        a = rng.integers(1, 4, m).astype(float)                                         # ties and plateaus
    elif kind == 5:
        a = 1 + np.abs(np.sin(x * rng.uniform(3, 25)))
    else:
        a = np.concatenate([np.linspace(5, 1, m // 2), 1 + 2 * np.exp(-((np.linspace(0, 1, m - m // 2) - 0.8) / 0.1) ** 2)])   # edge above peak
    return a


def gen_range(rng, f):
    def pick():
        c = rng.integers(0, 6)
        if c == 0:
            return None
        if c == 1:
            return float(f[rng.integers(0, len(f))])                       # exactly on a sample
        if c == 2:
            i = rng.integers(0, len(f) - 1)
            return float(f[i] + (f[i + 1] - f[i]) * rng.uniform(0.05, 0.45))   # clearly nearer one sample
        if c == 3:
            return float(f[0] - rng.uniform(0.1, 1))                       # below the grid
        if c == 4:
            return float(f[-1] + rng.uniform(0.1, 5))                      # above the grid
        return float(rng.uniform(f[0], f[-1]))
    lo, hi = pick(), pick()
    return (lo, hi)


def _razor(f, r):
    """True if a limit is (within rounding) equidistant from two samples - nearest-sample is then not well defined."""
    for x in r:
        if x is None:
            continue
        d = np.sort(np.abs(f - x))
        if len(d) > 1 and abs(d[1] - d[0]) < 1e-9 * max(1.0, abs(x)) and d[0] != d[1]:
            return True
        if len(d) > 1 and d[0] == d[1]:
            return False
    return False


def _peq(got_f, got_a, want):
    if want is None:
        return got_f is None or (isinstance(got_f, float) and np.isnan(got_f)) or (hasattr(got_f, "dtype") and np.isnan(got_f))
    if got_f is None:
        return False
    return got_f == want[0] and got_a == want[1]


def curve_clause(cl, rng, n, replay):
    import hvsrpy
    for j in range(n):
        m = int(rng.integers(3, 40))
        f = np.sort(rng.uniform(0.1, 20, m)) if rng.random() < 0.5 else np.geomspace(0.2, 20, m)
        a = gen_curve(rng, m)
        c = hvsrpy.HvsrCurve(f, a)
        hist = [(None, None)]
        want = spec_peak(f, a, (None, None))
        if not _peq(c.peak_frequency, c.peak_amplitude, want):
            cl.fail("hvsrpy.hvsr_curve.HvsrCurve.__init__", "initial peak", signature="curve:init", frequency=f, amplitude=a, observed=(c.peak_frequency, c.peak_amplitude), required=want)
            return
        for step in range(int(rng.integers(1, 5))):
            r = gen_range(rng, f)
            if _razor(f, r):
                cl.skipped += 1
                continue
            hist.append(r)
            c.update_peaks_bounded(search_range_in_hz=r)
            want = spec_peak(f, a, r)
            cl.case((m, tuple(hist), j), nontrivial=want is not None)
            if not _peq(c.peak_frequency, c.peak_amplitude, want):
                cl.fail("hvsrpy.hvsr_curve.HvsrCurve.update_peaks_bounded", f"peak after range history {hist}", signature="curve:update",
                        frequency=f, amplitude=a, history=hist, observed=(c.peak_frequency, c.peak_amplitude), required=want)
                return
            # static helper and the diffuse-field flavour
            g = hvsrpy.HvsrCurve._find_peak_bounded(f, a, search_range_in_hz=r)
            if not _peq(g[0], g[1], want):
                cl.fail("hvsrpy.hvsr_curve.HvsrCurve._find_peak_bounded", "static peak search", signature="curve:static", frequency=f, amplitude=a, range=r,
                        observed=g, required=want)
                return
            d = hvsrpy.HvsrDiffuseField(f, a)
            try:
                g = d.mean_curve_peak(search_range_in_hz=r)
                ok = want is not None and g[0] == want[0] and g[1] == want[1]
            except ValueError:
                ok = want is None
            if not ok:
                cl.fail("hvsrpy.hvsr_diffuse_field.HvsrDiffuseField.mean_curve_peak", "diffuse-field mean curve peak", signature="diffuse:peak",
                        frequency=f, amplitude=a, range=r, required=want)
                return
            # the range asked for is the range searched, whatever range the object's own peak was last searched in: the full range after a bounded update
            d.update_peaks_bounded(search_range_in_hz=r)
            full = spec_peak(f, a, (None, None))
            for call in (lambda: d.mean_curve_peak(), lambda: d.mean_curve_peak(search_range_in_hz=(None, None))):
                try:
                    g = call()
                    ok = full is not None and g[0] == full[0] and g[1] == full[1]
                except ValueError:
                    ok = full is None
                if not ok:
                    cl.fail("hvsrpy.hvsr_diffuse_field.HvsrDiffuseField.mean_curve_peak", f"full-range query after update_peaks_bounded({r}) does not search the full range",
                            signature="diffuse:peak-after-update", frequency=f, amplitude=a, range=r, required=full)
                    return


def _check_traditional(cl, h, f, A, r, fn, extra):
    """per-window peaks, masks and the mean-curve peak of a HvsrTraditional after a peak search over range r"""
    wants = [spec_peak(f, row, r) for row in A]
    for i, w in enumerate(wants):
        gf, ga = h._main_peak_frq[i], h._main_peak_amp[i]
        if not _peq(float(gf), float(ga), w):
            cl.fail(fn, f"window {i}: peak differs from the highest local maximum inside the range", signature="traditional:peak", frequency=f,
                    amplitude=A[i], range=r, observed=(gf, ga), required=w, **extra)
            return False
    has = np.array([w is not None for w in wants])
    if has.any():
        if not (np.array_equal(h.valid_peak_boolean_mask, has) and np.array_equal(h.valid_window_boolean_mask, has)):
            cl.fail(fn, "after a peak search: windows without a peak must be masked, windows with a peak accepted", signature="traditional:masks",
                    range=r, has_peak=has, valid_peak=h.valid_peak_boolean_mask, valid_window=h.valid_window_boolean_mask, **extra)
            return False
        pf = h.peak_frequencies
        if len(pf) != has.sum() or np.isnan(pf).any():
            cl.fail(fn, "a window without a peak enters the resonance statistics", signature="traditional:nan-in-stats", **extra)
            return False
    else:
        if h.valid_peak_boolean_mask.any():
            cl.fail(fn, "no window has a peak but some valid_peak entries are True", signature="traditional:allflat", **extra)
            return False
    # mean-curve peak uses the stored range
    if h.valid_window_boolean_mask.sum() >= 1:
        mc = h.mean_curve("lognormal")
        want = spec_peak(f, mc, r)
        try:
            g = h.mean_curve_peak("lognormal")
            ok = want is not None and g[0] == want[0] and g[1] == want[1]
        except ValueError:
            ok = want is None
        if not ok:
            cl.fail(fn.replace("update_peaks_bounded", "mean_curve_peak"), "mean-curve peak is not the spec peak of mean_curve() over the stored range",
                    signature="traditional:mcpeak", range=r, required=want, **extra)
            return False
    return True


def traditional_clause(cl, rng, n, replay):
    import hvsrpy
    for j in range(n):
        m = int(rng.integers(4, 30))
        k = int(rng.integers(1, 6))
        f = np.geomspace(0.2, 20, m)
        A = np.array([gen_curve(rng, m) for _ in range(k)])
        if j % 3 == 1:
            # the other public constructor: a result assembled from single curves, some of which were searched over a bounded range before.  The result
            # declares the range it declares (the full one) and every window reports the peak of *that* range
            curves = [hvsrpy.HvsrCurve(f, row) for row in A]
            for c in curves[::2]:
                rr = gen_range(rng, f)
                if not _razor(f, rr):
                    c.update_peaks_bounded(search_range_in_hz=rr)
            h = hvsrpy.HvsrTraditional.from_hvsr_curves(curves)
            declared = tuple(h._search_range_in_hz)
            cl.case((m, k, "from_hvsr_curves", j))
            if not np.array_equal(h.amplitude, A) or not np.array_equal(h.frequency, f):
                cl.fail("hvsrpy.hvsr_traditional.HvsrTraditional.from_hvsr_curves", "rows are not the curves given, in order", signature="traditional:from-curves-rows")
                return
            if not _check_traditional(cl, h, f, A, declared, "hvsrpy.hvsr_traditional.HvsrTraditional.from_hvsr_curves", dict(history=["from_hvsr_curves", declared])):
                return
        else:
            h = hvsrpy.HvsrTraditional(f, A)
        if not _check_traditional(cl, h, f, A, (None, None), "hvsrpy.hvsr_traditional.HvsrTraditional.update_peaks_bounded", dict(history=[(None, None)])):
            return
        hist = [(None, None)]
        for step in range(int(rng.integers(1, 4))):
            r = gen_range(rng, f)
            if _razor(f, r):
                continue
            hist.append(r)
            if step % 2 == 0:
                # the range handed over as a list that the caller keeps using: what the object searched (and reports) is the range as it was
                r_list = list(r)
                h.update_peaks_bounded(search_range_in_hz=r_list)
                r_list[0], r_list[1] = 0.0123, 0.0456
            else:
                h.update_peaks_bounded(search_range_in_hz=r)
            cl.case((m, k, tuple(hist), j))
            if tuple(h._search_range_in_hz) != tuple(r) or tuple(h.meta.get("search_range_in_hz")) != tuple(r):
                cl.fail("hvsrpy.hvsr_traditional.HvsrTraditional.update_peaks_bounded", "stored search range (differs from the range given, or follows the caller's list)",
                        signature="traditional:range")
                return
            if not _check_traditional(cl, h, f, A, r, "hvsrpy.hvsr_traditional.HvsrTraditional.update_peaks_bounded", dict(history=list(hist))):
                return
            if not _after_mask_change(cl, rng, h, f, A, r, list(hist)):
                return


def _after_mask_change(cl, rng, h, f, A, r, hist):
    """the mean-curve peak is that of the mean curve of the windows accepted *now*: after the accepted set changed by a route other than a peak search
    (a manual rejection editing the masks in place, a time-domain rejection with the object attached) the peak reported follows it"""
    import hvsrpy
    acc = np.flatnonzero(h.valid_window_boolean_mask & h.valid_peak_boolean_mask)
    if len(acc) < 3:
        return True
    drop = int(rng.choice(acc))
    if rng.random() < 0.5:
        h.valid_window_boolean_mask[drop] = False
        h.valid_peak_boolean_mask[drop] = False
        route = "manual rejection of window %d" % drop
    else:
        from bounded import refproc as rp
        recs = []
        for w in range(len(A)):
            ns, ew, vt, dt_ = rp.gen_window(rng, N=120, dt=0.01, scale=1.0)
            if w == drop or not (h.valid_window_boolean_mask[w] and h.valid_peak_boolean_mask[w]):
                ns = ns * 1e6          # the windows to be rejected carry a spike-sized amplitude
            recs.append(rp.mk_record(ns, ew, vt, dt_))
        hvsrpy.maximum_value_window_rejection(recs, maximum_value_threshold=1e3, normalized=False, hvsr=h)
        route = "maximum_value_window_rejection dropping window %d" % drop
    cl.case(("mask-change", route, tuple(hist)))
    for dist in ("lognormal", "normal", "lognormal"):
        mc = h.mean_curve(dist)
        want = spec_peak(f, mc, r)
        try:
            g = h.mean_curve_peak(dist)
            ok = want is not None and g[0] == want[0] and g[1] == want[1]
        except ValueError:
            ok = want is None
        if not ok:
            cl.fail("hvsrpy.hvsr_traditional.HvsrTraditional.mean_curve_peak", f"after {route} the mean-curve peak [{dist}] is not the highest local maximum of the mean curve "
                    "of the windows accepted now, inside the stored range", signature="traditional:mcpeak-after-mask-change", range=r, required=want, history=hist)
            return False
    return True


def azimuthal_clause(cl, rng, n, replay):
    import hvsrpy
    for j in range(n):
        m = int(rng.integers(4, 25))
        f = np.geomspace(0.2, 20, m)
        naz = int(rng.integers(1, 4))
        As = [np.array([gen_curve(rng, m) for _ in range(int(rng.integers(1, 4)))]) for _ in range(naz)]
        originals = [hvsrpy.HvsrTraditional(f, A) for A in As]
        h = hvsrpy.HvsrAzimuthal(originals, list(np.linspace(0, 150, naz)))
        hist = []
        for step in range(int(rng.integers(1, 4))):
            r = gen_range(rng, f)
            if _razor(f, r):
                continue
            hist.append(r)
            h.update_peaks_bounded(search_range_in_hz=r)
            cl.case((m, naz, tuple(hist), j))
            # the per-azimuth results the azimuthal object was built from are objects of their own: they still report the peaks of *their* (full) range
            for ai, (o, A) in enumerate(zip(originals, As)):
                if tuple(o._search_range_in_hz) != (None, None) or not _check_traditional(cl, o, f, A, (None, None), "hvsrpy.hvsr_azimuthal.HvsrAzimuthal.__init__",
                                                                                           dict(azimuth_index=ai, history=list(hist), note="original object after the azimuthal object was updated")):
                    if not cl.failures:
                        cl.fail("hvsrpy.hvsr_azimuthal.HvsrAzimuthal.__init__", "a peak-range update of the azimuthal object changed the object it was built from", signature="azimuthal:shared-with-original")
                    return
            for ai, (hv, A) in enumerate(zip(h.hvsrs, As)):
                if not _check_traditional(cl, hv, f, A, r, "hvsrpy.hvsr_azimuthal.HvsrAzimuthal.update_peaks_bounded", dict(azimuth_index=ai, history=list(hist))):
                    return
            # the table of per-azimuth mean-curve peaks: entry a is the peak of azimuth a's own mean curve in the range; an azimuth without one is never
            # reported with numbers (the library refuses the whole table with the per-azimuth object's ValueError)
            if all(hv.valid_window_boolean_mask.sum() >= 1 for hv in h.hvsrs):
                wants = [spec_peak(f, hv.mean_curve("lognormal"), r) for hv in h.hvsrs]
                try:
                    gf, ga = h.mean_curve_peak_by_azimuth("lognormal")
                    ok = len(gf) == naz and len(ga) == naz and all(w is not None and gf[a] == w[0] and ga[a] == w[1] for a, w in enumerate(wants))
                    got = (np.array(gf), np.array(ga))
                except ValueError:
                    ok = any(w is None for w in wants)
                    got = "ValueError"
                if not ok:
                    cl.fail("hvsrpy.hvsr_azimuthal.HvsrAzimuthal.mean_curve_peak_by_azimuth", "per-azimuth mean-curve peaks: an entry is not the peak of that azimuth's mean curve "
                            "in the range (or an azimuth without a peak is reported with numbers)", signature="azimuthal:peak-by-azimuth", range=r, required=wants, observed=got)
                    return
            # the azimuthal mean-curve peak uses the same range
            try:
                if all(hv.valid_window_boolean_mask.sum() >= 1 and np.array_equal(hv.valid_window_boolean_mask, hv.valid_peak_boolean_mask) for hv in h.hvsrs):
                    mc = h.mean_curve("lognormal")
                    want = spec_peak(f, mc, r)
                    try:
                        g = h.mean_curve_peak("lognormal")
                        ok = want is not None and g[0] == want[0] and g[1] == want[1]
                    except ValueError:
                        ok = want is None
                    if not ok:
                        cl.fail("hvsrpy.hvsr_azimuthal.HvsrAzimuthal.mean_curve_peak", "azimuthal mean-curve peak", signature="azimuthal:mcpeak", range=r, required=want)
                        return
            except Exception as ex:
                cl.fail("hvsrpy.hvsr_azimuthal.HvsrAzimuthal.mean_curve_peak", f"{type(ex).__name__}: {ex}", signature="azimuthal:exc")
                return


def two_axes_clause(cl, rng, n, replay):
    """the same search range on two frequency vectors that agree in length, first and last value but not in between (equally spaced / geometric / irregular), one after the
    other in one process: each object's peak is found on its own samples"""
    import hvsrpy
    for j in range(n):
        m = int(rng.integers(12, 60))
        lo_f, hi_f = float(rng.choice([0.1, 0.2, 0.5])), float(rng.choice([20., 25., 50.]))
        inner = np.sort(rng.uniform(lo_f, hi_f, m - 2))
        axes = [np.linspace(lo_f, hi_f, m), np.geomspace(lo_f, hi_f, m), np.concatenate([[lo_f], inner, [hi_f]])]
        order = rng.permutation(3)
        r = (float(rng.uniform(lo_f * 1.5, 2.0)), float(rng.uniform(3.0, hi_f * 0.8)))
        for which in order:
            f = axes[int(which)]
            if _razor(f, r):
                continue
            k = int(rng.integers(2, 5))
            A = np.array([gen_curve(rng, m) for _ in range(k)])
            h = hvsrpy.HvsrTraditional(f, A)
            h.update_peaks_bounded(search_range_in_hz=r)
            cl.case((j, int(which), m, r))
            if not _check_traditional(cl, h, f, A, r, "hvsrpy.hvsr_curve.HvsrCurve._search_range_to_index_range", dict(history=[(None, None), r], axis=["equally spaced", "geometric", "irregular"][int(which)])):
                return
            c = hvsrpy.HvsrCurve(f, A[0])
            c.update_peaks_bounded(search_range_in_hz=r)
            if not _peq(c.peak_frequency, c.peak_amplitude, spec_peak(f, A[0], r)):
                cl.fail("hvsrpy.hvsr_curve.HvsrCurve._search_range_to_index_range", "single curve: peak differs from the highest local maximum inside the range on this object's own frequency samples",
                        signature="curve:two-axes", range=r, frequency=f, amplitude=A[0])
                return


CLAUSES = [
    ("cross-check:the same range on frequency vectors of equal length and end points (equally spaced, geometric, irregular) in one process", "cross-check",
     "12-59 samples, 2-4 windows", "hvsrpy.hvsr_curve.HvsrCurve._search_range_to_index_range", (20, 300), two_axes_clause),
    ("cross-check:HvsrCurve / static / diffuse-field peaks == spec over range-update histories", "cross-check",
     "curves of 3-40 samples (noisy, bumps, monotone, flat, plateaus, edge-above-peak), 1-4 range updates (None, on-sample, off-sample, out of grid)",
     "hvsrpy.hvsr_curve.HvsrCurve.update_peaks_bounded", (150, 4000), curve_clause),
    ("cross-check:HvsrTraditional per-window peaks, masks, mean-curve peak == spec over histories", "cross-check",
     "1-5 windows x 4-30 samples, 1-3 range updates", "hvsrpy.hvsr_traditional.HvsrTraditional.update_peaks_bounded", (120, 3000), traditional_clause),
    ("cross-check:HvsrAzimuthal every azimuth satisfies the traditional spec with the same range", "cross-check",
     "1-3 azimuths x 1-3 windows, 1-3 range updates", "hvsrpy.hvsr_azimuthal.HvsrAzimuthal.update_peaks_bounded", (60, 1500), azimuthal_clause),
]

if __name__ == "__main__":
    run(CLAUSES)
