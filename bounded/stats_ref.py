"""Textbook estimators (executable form of the C05 / C11 statistics contracts), written independently of hvsrpy.statistics."""
import numpy as np

CANON = {"normal": "normal", "lognormal": "lognormal", "log-normal": "lognormal"}


def g(dist):
    return (lambda x: np.asarray(x, dtype=float)) if CANON[dist] == "normal" else (lambda x: np.log(np.asarray(x, dtype=float)))


def ginv(dist):
    return (lambda x: x) if CANON[dist] == "normal" else np.exp


def mean(dist, x):
    return ginv(dist)(np.mean(g(dist)(x), axis=0))


def std(dist, x):
    y = g(dist)(x)
    return np.sqrt(np.sum((y - np.mean(y, axis=0)) ** 2, axis=0) / (len(y) - 1))


def nth(dist, n, m, s):
    return m + n * s if CANON[dist] == "normal" else np.exp(np.log(m) + n * s)


def cov(dist, f, a):
    y = np.vstack([g(dist)(f), g(dist)(a)])
    d = y - y.mean(axis=1, keepdims=True)
    return d @ d.T / (y.shape[1] - 1)


# ---- weighted (Cheng et al. 2020): weights w_i = 1 / (n_azimuths * n_accepted_in_azimuth)
def wmean(dist, x, w):
    y = g(dist)(x)
    return ginv(dist)(np.sum(y * w) / np.sum(w))


def wstd(dist, x, w):
    y = g(dist)(x)
    mu = np.sum(y * w) / np.sum(w)
    return np.sqrt(np.sum(w * (y - mu) ** 2) / (1 - np.sum(w ** 2)))


def wcov(dist, f, a, w):
    y = np.vstack([g(dist)(f), g(dist)(a)])
    w = w / np.sum(w)
    mu = (y * w).sum(axis=1, keepdims=True)
    d = y - mu
    return (d * w) @ d.T / (1 - np.sum(w ** 2))


def cheng_weights(counts):
    A = len(counts)
    return np.concatenate([np.full(c, 1.0 / (A * c)) for c in counts])
