"""C12 native harness: HVSR results survive a write/read round trip after any history; derived columns are those of the written object."""
import os
import tempfile

import numpy as np

from bounded.common import close, run
from bounded.C05 import gen_object, apply_history
from bounded.C11 import gen_az, reject_some


def same(a, b):
    return np.array_equal(np.asarray(a), np.asarray(b), equal_nan=True)


def stats_of(h, dists=("lognormal", "normal")):
    out = []
    for d in dists:
        for fn in ("mean_fn_frequency", "mean_fn_amplitude", "std_fn_frequency", "std_fn_amplitude", "mean_curve", "std_curve", "cov_fn"):
            try:
                out.append(np.asarray(getattr(h, fn)(d), dtype=float).ravel())
            except Exception as ex:
                out.append(np.array([hash(type(ex).__name__) % 997], dtype=float))
        try:
            out.append(np.asarray(h.mean_curve_peak(d), dtype=float))
        except ValueError:
            out.append(np.array([-1.0]))
    return np.concatenate(out)


def read_columns(fn):
    arr = np.loadtxt(fn, comments="#", delimiter=",")
    return arr


def traditional_clause(cl, rng, n, replay):
    import hvsrpy
    d = tempfile.mkdtemp(prefix="c12_")
    try:
        for j in range(n):
            h, f, A = gen_object(rng)
            if j % 4 == 3:
                # the frequency vector is written and read back as it is, whatever its order (centre frequencies given high to low are legal)
                f, A = f[::-1].copy(), A[:, ::-1].copy()
                h = hvsrpy.HvsrTraditional(f, A)
            if j % 5 == 2:
                # magnitudes far from 1: deep troughs (amplitudes around 1e-3 and below), a long-period band (frequencies from 0.002 Hz), tiny amplitudes (SI units) -
                # "bit for bit" holds for every float, not only for numbers between 0.1 and 20
                kind = int(rng.integers(0, 3))
                if kind == 0:
                    A = A.copy()
                    cols = rng.choice(A.shape[1], size=max(1, A.shape[1] // 6), replace=False)
                    A[:, cols] *= rng.uniform(1e-4, 3e-3, size=(A.shape[0], len(cols)))
                elif kind == 1:
                    f = f * 0.01
                else:
                    A = A * float(rng.choice([1e-6, 1e-12, 3e-20]))
                h = hvsrpy.HvsrTraditional(f, A)
            h.meta["processing_method"] = "traditional"
            hist = apply_history(rng, h, f)
            if j % 4 == 1:
                # a definite history (not left to chance): the library's own rejection with one search range, afterwards a peak search over another range - the file must
                # carry the range the peaks of the written object were found with, not the one the rejection once used
                r1 = (float(f.min() * 1.2), float(f.max() * 0.35)) if f[0] < f[-1] else (float(f.min() * 1.2), float(f.max() * 0.35))
                r2 = (float(f.max() * 0.1), float(f.max() * 0.9))
                try:
                    hvsrpy.frequency_domain_window_rejection(h, n=2.0, max_iterations=5, search_range_in_hz=r1)
                    hist.append(("fdwra-with-range", r1))
                except ValueError:
                    pass
                h.update_peaks_bounded(search_range_in_hz=r2)
                hist.append(("range", r2[0], r2[1]))
            if rng.random() < 0.35:
                # peak-search filters handed over in a dictionary the caller keeps using (edits it, re-uses it for another object) afterwards:
                # the object and its file must keep the filters the peaks were found with
                kw = {"prominence": float(rng.choice([0.05, 0.2]))}
                h.update_peaks_bounded(search_range_in_hz=h._search_range_in_hz, find_peaks_kwargs=kw)
                kw["prominence"] = 50.0
                kw["width"] = 3
                hist.append(("filters-then-caller-edits-its-dict",))
            # a window without a peak in the range may still be an accepted window (its peak simply does not count): e.g. after manual re-acceptance
            nopeak = np.isnan(h._main_peak_frq)
            if nopeak.any() and rng.random() < 0.6:
                h.valid_window_boolean_mask = np.array(h.valid_window_boolean_mask | nopeak)
                hist.append(("accept-windows-without-peak",))
            if h.valid_window_boolean_mask.sum() < 2 or (h.valid_peak_boolean_mask & ~nopeak).sum() < 2:
                cl.skipped += 1
                continue
            dmc = str(rng.choice(["lognormal", "normal"]))
            fn = os.path.join(d, f"t{j}.csv")
            before = (h.frequency.copy(), h.amplitude.copy(), h.valid_window_boolean_mask.copy(), h.valid_peak_boolean_mask.copy(), stats_of(h))
            mc, sc = h.mean_curve(dmc), h.std_curve(dmc)
            hvsrpy.write_hvsr_object_to_file(hvsr=h, fname=fn, distribution_mc=dmc, distribution_fn="lognormal")
            if not (same(before[1], h.amplitude) and same(before[2], h.valid_window_boolean_mask) and same(before[3], h.valid_peak_boolean_mask) and same(before[4], stats_of(h))):
                cl.fail("hvsrpy.object_io.write_hvsr_object_to_file", "writing modified the object", signature="io:write-frame")
                return
            cols = read_columns(fn)
            b = hvsrpy.read_hvsr_object_from_file(fn)
            cl.case((j, tuple(map(str, hist)), dmc), nontrivial=len(hist) > 0)
            if not (same(cols[:, 0], h.frequency) and same(cols[:, 1:-2].T, h.amplitude) and same(cols[:, -2], mc) and same(cols[:, -1], sc)):
                cl.fail("hvsrpy.object_io.write_hvsr_object_to_file", "file columns are not frequency | curves | mean curve | std curve of the written object", signature="io:columns")
                return
            ok = (isinstance(b, hvsrpy.HvsrTraditional) and same(b.frequency, h.frequency) and b.amplitude.tobytes() == h.amplitude.tobytes()
                  and same(b.valid_window_boolean_mask, h.valid_window_boolean_mask) and same(b.valid_peak_boolean_mask, h.valid_peak_boolean_mask)
                  and tuple(b._search_range_in_hz) == tuple(h._search_range_in_hz) and same(b._main_peak_frq, h._main_peak_frq) and same(b._main_peak_amp, h._main_peak_amp))
            if not ok or not same(stats_of(b), before[4]):
                cl.fail("hvsrpy.object_io.read_hvsr_object_from_file", f"traditional round trip after history {hist}: curves / masks / search range / peaks / statistics differ",
                        signature="io:traditional", history=hist, masks_written=(h.valid_window_boolean_mask.astype(int), h.valid_peak_boolean_mask.astype(int)),
                        masks_read=(b.valid_window_boolean_mask.astype(int), b.valid_peak_boolean_mask.astype(int)))
                return
    finally:
        import shutil
        shutil.rmtree(d, ignore_errors=True)


def azimuthal_clause(cl, rng, n, replay):
    import hvsrpy
    d = tempfile.mkdtemp(prefix="c12_")
    try:
        for j in range(n):
            h, f, As = gen_az(rng, naz=int(rng.integers(1, 5)))
            if rng.random() < 0.5:
                h.azimuths = [min(180.0, float(a) + float(rng.choice([0.0, 0.5, 0.25]))) for a in h.azimuths]      # legal azimuths lie in [0, 180]
            h.meta["processing_method"] = "azimuthal"
            if len(h.azimuths) > 1 and rng.random() < 0.6:
                h.azimuths = [float(a) for a in rng.permutation(h.azimuths)]       # azimuths need not be given in ascending order
            hist = []
            if rng.random() < 0.7:
                r = (None if rng.random() < 0.5 else float(rng.uniform(0.2, 0.8)), None if rng.random() < 0.5 else float(rng.uniform(8, 20)))
                h.update_peaks_bounded(search_range_in_hz=r)
                hist.append(("range", r))
            if rng.random() < 0.5:
                # the object is looked at (as a first write or a plot would) before its windows are rejected: what is written later is its later state
                for dd in ("lognormal", "normal"):
                    h.mean_curve(dd), h.std_curve(dd), h.mean_fn_frequency(dd)
                hist.append(("statistics-read-before-rejection",))
            if rng.random() < 0.4:
                # the library's own rejection with a search range of its own (the range it used must survive the round trip too)
                r = (None if rng.random() < 0.3 else float(rng.uniform(0.2, 0.8)), None if rng.random() < 0.3 else float(rng.uniform(8, 20)))
                try:
                    hvsrpy.frequency_domain_window_rejection(h, n=float(rng.choice([2.0, 2.5, 3.0])), max_iterations=int(rng.integers(1, 6)), search_range_in_hz=r)
                    hist.append(("fdwra", r))
                except ValueError:
                    hist.append(("fdwra-no-peak", r))
            if rng.random() < 0.7:
                for hv in h.hvsrs:
                    has = ~np.isnan(hv._main_peak_frq)
                    sel = (rng.random(len(has)) < 0.75) & has
                    if sel.sum() >= 2:
                        hv.valid_window_boolean_mask = np.array(sel)
                        hv.valid_peak_boolean_mask = np.array(sel)
                hist.append(("reject",))
            if any(hv.valid_peak_boolean_mask.sum() < 2 or not same(hv.valid_peak_boolean_mask, hv.valid_window_boolean_mask) for hv in h.hvsrs):
                cl.skipped += 1
                continue
            dmc = str(rng.choice(["lognormal", "normal"]))
            fn = os.path.join(d, f"a{j}.csv")
            st0 = stats_of(h)
            mc, sc = h.mean_curve(dmc), h.std_curve(dmc)
            hvsrpy.write_hvsr_object_to_file(hvsr=h, fname=fn, distribution_mc=dmc)
            cols = read_columns(fn)
            b = hvsrpy.read_hvsr_object_from_file(fn)
            cl.case((j, len(h.hvsrs), tuple(map(str, hist)), dmc), nontrivial=len(hist) > 0)
            allc = np.concatenate([hv.amplitude for hv in h.hvsrs], axis=0)
            if not (same(cols[:, 0], h.frequency) and same(cols[:, 1:-2].T, allc) and same(cols[:, -2], mc) and same(cols[:, -1], sc)):
                cl.fail("hvsrpy.object_io.write_hvsr_object_to_file", "azimuthal file: columns are not frequency | curves per azimuth | mean and std curve of the azimuthal object",
                        signature="io:az-columns")
                return
            ok = isinstance(b, hvsrpy.HvsrAzimuthal) and len(b.hvsrs) == len(h.hvsrs) and np.allclose(b.azimuths, h.azimuths, rtol=0, atol=1e-12)
            for x, y in zip(b.hvsrs if ok else [], h.hvsrs):
                ok = ok and (x.amplitude.tobytes() == y.amplitude.tobytes() and same(x.valid_window_boolean_mask, y.valid_window_boolean_mask)
                             and same(x.valid_peak_boolean_mask, y.valid_peak_boolean_mask) and tuple(x._search_range_in_hz) == tuple(y._search_range_in_hz)
                             and same(x._main_peak_frq, y._main_peak_frq) and same(x._main_peak_amp, y._main_peak_amp))
            if not ok or not same(stats_of(b), st0):
                cl.fail("hvsrpy.object_io.read_hvsr_object_from_file", f"azimuthal round trip after {hist}: azimuths / curves / masks / search range / peaks / statistics differ",
                        signature="io:azimuthal", history=hist)
                return
    finally:
        import shutil
        shutil.rmtree(d, ignore_errors=True)


def diffuse_clause(cl, rng, n, replay):
    import hvsrpy
    d = tempfile.mkdtemp(prefix="c12_")
    try:
        for j in range(n):
            m = int(rng.integers(10, 60))
            f = np.geomspace(0.1, 30, m)
            a = 1 + 3 * np.exp(-(np.log(f / rng.uniform(0.5, 8)) / 0.3) ** 2) + 0.1 * np.abs(rng.normal(0, 1, m))
            if j % 3 == 2:
                f, a = f[::-1].copy(), a[::-1].copy()          # high-to-low frequency vectors are legal and are stored as they are
            h = hvsrpy.HvsrDiffuseField(f, a, meta={"processing_method": "diffuse_field"})
            r = (None, None) if j % 2 else (float(min(f[2], f[-3])), float(max(f[2], f[-3])))
            h.update_peaks_bounded(search_range_in_hz=r)
            fn = os.path.join(d, f"d{j}.csv")
            hvsrpy.write_hvsr_object_to_file(hvsr=h, fname=fn)
            b = hvsrpy.read_hvsr_object_from_file(fn)
            cl.case((j, m, r))
            if not (isinstance(b, hvsrpy.HvsrDiffuseField) and same(b.frequency, h.frequency) and b.amplitude.tobytes() == h.amplitude.tobytes()
                    and tuple(b._search_range_in_hz) == tuple(h._search_range_in_hz) and same(b.peak_frequency, h.peak_frequency) and same(b.peak_amplitude, h.peak_amplitude)):
                cl.fail("hvsrpy.object_io.read_hvsr_object_from_file", "diffuse-field round trip: curve / search range / peak differ", signature="io:diffuse")
                return
    finally:
        import shutil
        shutil.rmtree(d, ignore_errors=True)


CLAUSES = [
    ("bounded:traditional write/read round trip after random histories; derived columns of the written object", "bounded",
     "4-11 windows, up to 5 history steps incl. accepted windows without a peak, both distributions at write time", "hvsrpy.object_io.read_hvsr_object_from_file", (50, 1000), traditional_clause),
    ("bounded:azimuthal write/read round trip (1-4 azimuths incl. non-integer, unequal counts, range and mask states)", "bounded", "as stated",
     "hvsrpy.object_io.write_hvsr_object_to_file", (40, 800), azimuthal_clause),
    ("bounded:diffuse-field write/read round trip", "bounded", "10-60 samples, default and limited range", "hvsrpy.object_io.read_hvsr_object_from_file", (20, 200), diffuse_clause),
]

if __name__ == "__main__":
    run(CLAUSES)
