"""C04 native harness: orientation / azimuth consistency evaluated on the real code."""
import numpy as np

from bounded.common import close, run
from bounded import refproc as rp

FCS = np.array([1.0, 2.0, 4.0, 8.0, 16.0])
SM = dict(operator="konno_and_ohmachi", bandwidth=30., center_frequencies_in_hz=FCS)


def orient_clause(cl, rng, n, replay):
    import hvsrpy
    for j in range(n):
        N = int(rng.integers(1, 60))
        ns, ew, vt = rng.normal(0, 1, N), rng.normal(0, 1, N), rng.normal(0, 1, N)
        d0 = float(rng.choice([0., 30., 359., 725., -45., 180.]))
        t1 = float(rng.choice([0., 90., 45., -30., 400., 180., 12.5]))
        r = rp.mk_record(ns, ew, vt, 0.01, degrees_from_north=d0)
        cur = r.degrees_from_north
        cl.case((N, d0, t1))
        if not (0 <= cur < 360 and abs(((d0 - cur) / 360) - round((d0 - cur) / 360)) < 1e-12):
            cl.fail("hvsrpy.seismic_recording_3c.SeismicRecording3C.__init__", f"orientation {d0} stored as {cur}: not the residue in [0,360)", signature="init:normalise")
            return
        r.orient_sensor_to(t1)
        a = np.radians(t1 - cur)
        want_ns, want_ew = ew * np.sin(a) + ns * np.cos(a), ew * np.cos(a) - ns * np.sin(a)
        if not (close(r.ns.amplitude, want_ns, 1e-12, 1e-12) and close(r.ew.amplitude, want_ew, 1e-12, 1e-12) and np.array_equal(r.vt.amplitude, vt)
                and r.degrees_from_north == t1):
            cl.fail("hvsrpy.seismic_recording_3c.SeismicRecording3C.orient_sensor_to", "not the clockwise-from-north rotation / vertical touched / orientation not stored",
                    signature="orient:formula", d0=d0, target=t1)
            return
        # composition and invertibility
        t2 = float(rng.choice([10., 275., -100., 720.]))
        r.orient_sensor_to(t2)
        direct = rp.mk_record(ns, ew, vt, 0.01, degrees_from_north=d0)
        direct.orient_sensor_to(t2)
        r.orient_sensor_to(cur)
        if not (close(direct.ns.amplitude, ew * np.sin(np.radians(t2 - cur)) + ns * np.cos(np.radians(t2 - cur)), 1e-10, 1e-10)
                and close(r.ns.amplitude, ns, 1e-10, 1e-10) and close(r.ew.amplitude, ew, 1e-10, 1e-10)):
            cl.fail("hvsrpy.seismic_recording_3c.SeismicRecording3C.orient_sensor_to", "composition / inverse of re-orientations", signature="orient:compose")
            return
        # the rotation acts on the horizontals the recording holds *now*: after an in-place change (scaling, detrending, trimming, tapering) between two re-orientations the
        # second one rotates the changed samples
        if N >= 8:
            h = rp.mk_record(ns, ew, vt, 0.01, degrees_from_north=d0)
            h.orient_sensor_to(t1)
            step = j % 4
            if step == 0:
                h.ns.amplitude *= 3.0
                h.ew.amplitude[:] = h.ew.amplitude[::-1].copy()
            elif step == 1:
                h.detrend("linear")
            elif step == 2:
                h.trim(0.01, (N - 2) * 0.01)
            else:
                h.window("tukey", 0.5)
            n1, e1, v1 = h.ns.amplitude.copy(), h.ew.amplitude.copy(), h.vt.amplitude.copy()
            h.orient_sensor_to(t2)
            a2 = np.radians(t2 - t1)
            if not (len(h.ns.amplitude) == len(n1) == len(h.ew.amplitude) and close(h.ns.amplitude, e1 * np.sin(a2) + n1 * np.cos(a2), 1e-10, 1e-10)
                    and close(h.ew.amplitude, e1 * np.cos(a2) - n1 * np.sin(a2), 1e-10, 1e-10) and np.array_equal(h.vt.amplitude, v1)):
                cl.fail("hvsrpy.seismic_recording_3c.SeismicRecording3C.orient_sensor_to", "a re-orientation after an in-place change of the recording (scaling / detrend / trim / taper) "
                        "is not the rotation of the horizontals the recording holds at that moment", signature="orient:after-inplace", d0=d0, first=t1, second=t2, step=step)
                return
        # polarisation: motion along true azimuth alpha recorded at deployment angle theta
        alpha, theta = float(rng.uniform(0, 360)), float(rng.choice([0., 20., 135., 300., 410.]))
        m = rng.normal(0, 1, N)
        Nn, E = m * np.cos(np.radians(alpha)), m * np.sin(np.radians(alpha))
        th = np.radians(theta)
        rec = rp.mk_record(Nn * np.cos(th) + E * np.sin(th), -Nn * np.sin(th) + E * np.cos(th), vt, 0.01, degrees_from_north=theta)
        rec.orient_sensor_to(0.)
        if not (close(rec.ns.amplitude, Nn, 1e-10, 1e-10) and close(rec.ew.amplitude, E, 1e-10, 1e-10)):
            cl.fail("hvsrpy.seismic_recording_3c.SeismicRecording3C.orient_sensor_to", "polarised motion does not reappear on its azimuth after orienting to north",
                    signature="orient:polarisation", alpha=alpha, theta=theta)
            return


def processing_clause(cl, rng, n, replay):
    import hvsrpy
    for j in range(n):
        ns, ew, vt, dt = rp.gen_window(rng, N=int(rng.integers(80, 200)), dt=0.01, scale=1.0)
        az = float(rng.choice([0., 25., 90., 140., 33.3]))
        mk = lambda: rp.mk_record(ns, ew, vt, dt)
        taper = [["tukey", 0.1], ["tukey", 0.6], ["tukey", 0.0], ["tukey", 1.0]][j % 4]       # the single-azimuth, azimuthal and RotDpp runs share the taper
        sa = lambda a: hvsrpy.HvsrTraditionalSingleAzimuthProcessingSettings(smoothing=SM, azimuth_in_degrees=a, window_type_and_width=list(taper))
        h_a = hvsrpy.process([mk()], sa(az)).amplitude[0]
        rec = mk()
        rec.orient_sensor_to(az)
        h_n = hvsrpy.process([rec], sa(0.)).amplitude[0]
        h_180 = hvsrpy.process([mk()], sa(az + 180.)).amplitude[0]
        cl.case(("single", az, j))
        if not (close(h_a, h_n, 1e-8) and close(h_a, h_180, 1e-8)):
            cl.fail("hvsrpy.processing.traditional_single_azimuth_hvsr_processing", "single-azimuth HVSR != HVSR of the north component after orienting / not 180-degree periodic",
                    signature="proc:single", azimuth=az)
            return
        # azimuthal == stack, rotdpp bounds and monotonicity
        # the azimuths are the caller's list as given: any order, repeated values allowed
        azs = [np.array([20.]), np.array([10., 30., 75.]), np.arange(0, 180, 35.), np.array([30., 120.]), np.arange(0, 180, 45.),
               np.array([90., 0., 45.]), np.array([120., 30., 30., 75.]), np.arange(150., -1., -50.)][j % 8]
        stack = np.array([hvsrpy.process([mk()], sa(float(a))).amplitude[0] for a in azs])
        hz = hvsrpy.process([mk()], hvsrpy.HvsrAzimuthalProcessingSettings(smoothing=SM, azimuths_in_degrees=azs, window_type_and_width=list(taper)))
        got = np.array([x.amplitude[0] for x in hz.hvsrs])
        if not close(got, stack, 1e-8):
            cl.fail("hvsrpy.processing.azimuthal_hvsr_processing", "azimuthal result is not the stack of the single-azimuth results", signature="proc:azimuthal", azimuths=azs)
            return
        prev = None
        for p in (0., 0.5, 1., 2.5, 25., 50., 80., 99., 100.):        # a percentile is a number between 0 and 100: small values are percentiles too, not fractions
            r = hvsrpy.process([mk()], hvsrpy.HvsrTraditionalRotDppProcessingSettings(smoothing=SM, azimuths_in_degrees=azs, window_type_and_width=list(taper),
                                                                                       ppth_percentile_for_rotdpp_computation=p)).amplitude[0]
            lo, hi = stack.min(axis=0), stack.max(axis=0)
            tol = 1e-8 * hi
            if np.any(r < lo - tol) or np.any(r > hi + tol) or (prev is not None and np.any(r < prev - tol)) \
                    or (p == 0. and not close(r, lo, 1e-8)) or (p == 100. and not close(r, hi, 1e-8)):
                cl.fail("hvsrpy.processing.traditional_rotdpp_hvsr_processing", f"RotD{p:g} outside [min, max] over the azimuths / decreasing in the percentile",
                        signature="proc:rotdpp", azimuths=azs, percentile=p)
                return
            prev = r
        cl.case(("rotdpp", tuple(azs), j))
        # rotation-invariant combinations do not depend on the sensor orientation
        theta = float(rng.uniform(0, 360))
        for method in ("squared_average", "root_mean_square", "total_horizontal_energy", "vector_summation"):
            s = lambda: hvsrpy.HvsrTraditionalProcessingSettings(smoothing=SM, method_to_combine_horizontals=method, window_type_and_width=["tukey", 0.0])
            base = hvsrpy.process([mk()], s()).amplitude[0]
            rec = mk()
            rec.orient_sensor_to(theta)
            rot = hvsrpy.process([rec], s()).amplitude[0]
            if not close(base, rot, 1e-8):
                cl.fail("hvsrpy.processing.traditional_hvsr_processing", f"{method}: curve depends on the sensor orientation", signature="proc:invariant", method=method, theta=theta)
                return
        s = lambda: hvsrpy.HvsrDiffuseFieldProcessingSettings(smoothing=SM)
        base = hvsrpy.process([mk()], s()).amplitude
        rec = mk()
        rec.orient_sensor_to(theta)
        rot = hvsrpy.process([rec], s()).amplitude
        cl.case(("invariant", theta, j))
        if not close(base, rot, 1e-8):
            cl.fail("hvsrpy.processing.diffuse_field_hvsr_processing", "diffuse-field curve depends on the sensor orientation", signature="proc:invariant-diffuse", theta=theta)
            return


def preprocess_orient_clause(cl, rng, n, replay):
    import hvsrpy
    for j in range(n):
        N = 300
        alpha, theta = float(rng.uniform(0, 360)), float(rng.choice([20., 135., 300., 45.]))
        m = rng.normal(0, 1, N)
        Nn, E = m * np.cos(np.radians(alpha)), m * np.sin(np.radians(alpha))
        th = np.radians(theta)
        target = [0., 0.0, 360., -360., 25., None][j % 6]
        for method in ("hvsr", "psd"):
            rec = rp.mk_record(Nn * np.cos(th) + E * np.sin(th), -Nn * np.sin(th) + E * np.cos(th), rng.normal(0, 1, N), 0.01, degrees_from_north=theta)
            cls = hvsrpy.HvsrPreProcessingSettings if method == "hvsr" else hvsrpy.PsdPreProcessingSettings
            s = cls(orient_to_degrees_from_north=target, window_length_in_seconds=None, detrend=None)
            out = hvsrpy.preprocess([rec], s)[0]
            cl.case((alpha, theta, target, method))
            tt = theta if target is None else target
            want_ns = Nn * np.cos(np.radians(tt)) + E * np.sin(np.radians(tt))
            if not close(out.ns.amplitude, want_ns, 1e-9, 1e-9):
                cl.fail(f"hvsrpy.preprocessing.{method}_preprocess", f"orient_to_degrees_from_north={target}: the sensor deployed at {theta} was not oriented",
                        signature="preprocess:orient", target=target, theta=theta)
                return


def preprocess_list_clause(cl, rng, n, replay):
    """one motion polarised along a true azimuth, recorded by several sensors deployed at different angles and preprocessed in one call: every recording comes back on the
    target orientation, whatever the deployment of the recordings before it in the list (the first one already on the target included)"""
    import hvsrpy
    for j in range(n):
        N = 200
        alpha = float(rng.uniform(0, 360))
        m = rng.normal(0, 1, N)
        Nn, E = m * np.cos(np.radians(alpha)), m * np.sin(np.radians(alpha))
        target = [0., 40., 360., 25.][j % 4]
        others = [float(x) for x in rng.choice([65., 130., 250., 90., 310.], size=int(rng.integers(1, 3)), replace=False)]
        thetas = [[target % 360] + others, others + [target % 360], [others[0], target % 360] + others[1:]][(j // 4) % 3]      # the sensor already on the target first, last, in between
        for method in ("hvsr", "psd"):
            recs = []
            for theta in thetas:
                th = np.radians(theta)
                recs.append(rp.mk_record(Nn * np.cos(th) + E * np.sin(th), -Nn * np.sin(th) + E * np.cos(th), rng.normal(0, 1, N), 0.01, degrees_from_north=theta))
            cls = hvsrpy.HvsrPreProcessingSettings if method == "hvsr" else hvsrpy.PsdPreProcessingSettings
            out = hvsrpy.preprocess(recs, cls(orient_to_degrees_from_north=target, window_length_in_seconds=None, detrend=None))
            cl.case((j, method, tuple(thetas), target))
            want_ns = Nn * np.cos(np.radians(target)) + E * np.sin(np.radians(target))
            for k, (o, theta) in enumerate(zip(out, thetas)):
                if not close(o.ns.amplitude, want_ns, 1e-9, 1e-9) or not (abs((o.degrees_from_north - target) % 360) <= 1e-9 or abs((o.degrees_from_north - target) % 360 - 360) <= 1e-9):
                    cl.fail(f"hvsrpy.preprocessing.{method}_preprocess", f"recording {k} of {len(thetas)} (deployed at {theta}, list deployed at {thetas}) was not oriented to {target}",
                            signature="preprocess:orient-list", target=target, thetas=thetas)
                    return


def derived_orientation_clause(cl, rng, n, replay):
    """windows, copies and reloaded recordings carry the orientation of the recording they come from: re-orienting them afterwards lands
    polarised motion on its true azimuth"""
    import hvsrpy
    import tempfile, os
    d = tempfile.mkdtemp(prefix="c04_")
    try:
        for j in range(n):
            N = 240
            alpha, theta = float(rng.uniform(0, 360)), float(rng.choice([20., 135., 300., 45., 0.]))
            m = rng.normal(0, 1, N)
            Nn, E = m * np.cos(np.radians(alpha)), m * np.sin(np.radians(alpha))
            th = np.radians(theta)
            rec = rp.mk_record(Nn * np.cos(th) + E * np.sin(th), -Nn * np.sin(th) + E * np.cos(th), rng.normal(0, 1, N), 0.01, degrees_from_north=theta)
            how = ["split", "copy", "save-load", "preprocess-no-orient"][j % 4]
            if how == "split":
                kids, offs = rec.split(0.6), [q * 60 for q in range(4)]
            elif how == "copy":
                kids, offs = [hvsrpy.SeismicRecording3C.from_seismic_recording_3c(rec)], [0]
            elif how == "save-load":
                fn = os.path.join(d, f"r{j}.json")
                rec.save(fn)
                kids, offs = [hvsrpy.SeismicRecording3C.load(fn)], [0]
            else:
                s = hvsrpy.HvsrPreProcessingSettings(orient_to_degrees_from_north=None, window_length_in_seconds=0.6, detrend=None)
                kids, offs = hvsrpy.preprocess([rec], s), [q * 60 for q in range(4)]
            cl.case((j, how, theta))
            for kid, off in zip(kids, offs):
                if not (abs(kid.degrees_from_north - theta) <= 1e-9):
                    cl.fail("hvsrpy.seismic_recording_3c.SeismicRecording3C." + ("split" if how in ("split", "preprocess-no-orient") else how.replace("-", "_")),
                            f"{how}: derived recording reports degrees_from_north={kid.degrees_from_north}, its source is at {theta}", signature="derived:orientation-value", how=how)
                    return
                kid.orient_sensor_to(0.)
                k = len(kid.ns.amplitude)
                if not (close(kid.ns.amplitude, Nn[off:off + k], 1e-9, 1e-9) and close(kid.ew.amplitude, E[off:off + k], 1e-9, 1e-9)):
                    cl.fail("hvsrpy.seismic_recording_3c.SeismicRecording3C.orient_sensor_to",
                            f"{how} of a sensor deployed at {theta}, then oriented to north: the motion polarised at {alpha:.1f} deg is not recovered", signature="derived:orientation", how=how)
                    return
    finally:
        import shutil
        shutil.rmtree(d, ignore_errors=True)


CLAUSES = [
    ("cross-check:orient_sensor_to == exact rotation (formula, vertical, composition, inverse, residues, polarisation)", "cross-check",
     "1-60 samples, 6 deployed x 7 target orientations incl. values outside [0,360)", "hvsrpy.seismic_recording_3c.SeismicRecording3C.orient_sensor_to", (150, 3000), orient_clause),
    ("bounded:single azimuth == oriented north component, 180-periodic; azimuthal == stack; RotDpp within min/max and monotone; invariant methods", "bounded",
     "windows of 80-200 samples, 5 azimuths, 5 azimuth sets, 5 percentiles, random orientation", "hvsrpy.processing.process", (10, 200), processing_clause),
    ("bounded:preprocessing orients every record (incl. target 0) before anything else", "bounded", "4 deployment angles x 6 targets x 2 preprocessing methods",
     "hvsrpy.preprocessing.hvsr_preprocess", (24, 240), preprocess_orient_clause),
    ("bounded:several sensors with different deployments preprocessed in one call all come back on the target (the first already on it included)", "bounded",
     "2-3 recordings, 4 targets, 3 list arrangements, 2 preprocessing methods", "hvsrpy.preprocessing.hvsr_preprocess", (12, 120), preprocess_list_clause),
    ("bounded:windows, copies and reloaded recordings keep the orientation of their source (re-orienting them recovers polarised motion)", "bounded",
     "5 deployment angles x split / copy / save-load / preprocess without orienting", "hvsrpy.seismic_recording_3c.SeismicRecording3C.split", (24, 240), derived_orientation_clause),
]

if __name__ == "__main__":
    run(CLAUSES)
