"""Independent reference evaluation of the HVSR pipeline (the executable form of the C01/C03/C04/C17 postconditions).

Written from the property statements: taper (Tukey) -> zero-padded |rfft| -> combine -> smooth (published kernels, evaluated by
bounded.C02.spec_kernel / sg_spec, not by hvsrpy.smoothing) -> divide.  numpy's rfft, scipy's tukey and numpy's percentile are
the external functions the contracts assume (A-FFT, A-TUKEY, A-PCTL); everything hvsrpy itself computes is recomputed here.
"""
import numpy as np
from scipy.signal.windows import tukey

from bounded.C02 import spec_kernel, sg_spec

ALIASES = {
    "arithmetic_mean": "arithmetic_mean",
    "squared_average": "squared_average", "quadratic_mean": "squared_average", "root_mean_square": "squared_average",
    "effective_amplitude_spectrum": "squared_average",
    "geometric_mean": "geometric_mean",
    "total_horizontal_energy": "total_horizontal_energy", "vector_summation": "total_horizontal_energy",
    "maximum_horizontal_value": "maximum_horizontal_value",
}


def combine(method, a, b):
    m = ALIASES[method]
    if m == "arithmetic_mean":
        return (a + b) / 2
    if m == "squared_average":
        return np.sqrt((a * a + b * b) / 2)
    if m == "geometric_mean":
        return np.sqrt(a * b)
    if m == "total_horizontal_energy":
        return np.sqrt(a * a + b * b)
    return np.maximum(a, b)


def amp_spectrum(x, width, n):
    w = tukey(len(x), alpha=width)
    return np.abs(np.fft.rfft(np.asarray(x, dtype=float) * w, n))


def smooth(operator, f, S, fcs, b):
    """returns (smoothed rows, margin). margin ~ 0 means a sample sits on a window edge within rounding."""
    S = np.atleast_2d(S)
    fcs = np.asarray(fcs, dtype=float)
    if operator == "savitzky_and_golay":
        return sg_spec(f, S, fcs, int(b))
    return spec_kernel(operator, f, S, fcs, b)


def azimuth_projection(ns, ew, az_deg):
    r = np.radians(az_deg)
    return ns * np.cos(r) + ew * np.sin(r)


def curve_traditional(ns, ew, vt, dt, n, method, width, operator, b, fcs):
    f = np.fft.rfftfreq(n, dt)
    h = combine(method, amp_spectrum(ns, width, n), amp_spectrum(ew, width, n))
    v = amp_spectrum(vt, width, n)
    sm, margin = smooth(operator, f, np.array([h, v]), fcs, b)
    with np.errstate(all="ignore"):
        return sm[0] / sm[1], margin, sm


def curve_single_azimuth(ns, ew, vt, dt, n, az, width, operator, b, fcs):
    f = np.fft.rfftfreq(n, dt)
    h = amp_spectrum(azimuth_projection(ns, ew, az), width, n)
    v = amp_spectrum(vt, width, n)
    sm, margin = smooth(operator, f, np.array([h, v]), fcs, b)
    with np.errstate(all="ignore"):
        return sm[0] / sm[1], margin, sm


def curve_rotdpp(ns, ew, vt, dt, n, azimuths, p, width, operator, b, fcs):
    f = np.fft.rfftfreq(n, dt)
    rows = [amp_spectrum(azimuth_projection(ns, ew, a), width, n) for a in azimuths]
    rows.append(amp_spectrum(vt, width, n))
    sm, margin = smooth(operator, f, np.array(rows), fcs, b)
    with np.errstate(all="ignore"):
        return np.percentile(sm[:-1], p, axis=0) / sm[-1], margin, sm


def psd_single(xs, dt, n, width):
    """Welch (1967) one-sided PSD: average over the windows of the single-window densities 2 |X_w|^2 / (mean(taper_w^2) N_w fs),
    each window with the taper and the sample count of its own length."""
    xs = [np.asarray(x, dtype=float) for x in xs]
    acc = np.zeros(n // 2 + 1)
    for x in xs:
        w = tukey(len(x), alpha=width)
        X = np.fft.rfft(x * w, n)
        acc += (X.real ** 2 + X.imag ** 2) / (np.mean(w ** 2) * len(x))
    return 2 * acc / ((1 / dt) * len(xs))


def curve_diffuse(records, n, width, operator, b, fcs):
    dt = records[0][3]
    f = np.fft.rfftfreq(n, dt)
    pns = psd_single([r[0] for r in records], dt, n, width)
    pew = psd_single([r[1] for r in records], dt, n, width)
    pvt = psd_single([r[2] for r in records], dt, n, width)
    sm, margin = smooth(operator, f, np.array([pns + pew, pvt]), fcs, b)
    with np.errstate(all="ignore"):
        return np.sqrt(sm[0] / sm[1]), margin


# ---------------------------------------------------------------- generators
def gen_window(rng, N=None, dt=None, scale=None):
    N = int(N or rng.integers(40, 400))
    dt = float(dt or rng.choice([0.01, 0.005, 0.02, 1 / 75, 0.004]))
    scale = float(scale or 10.0 ** rng.integers(-3, 4))
    t = np.arange(N) * dt
    out = []
    for _ in range(3):
        x = rng.normal(0, 1, N)
        for _k in range(2):
            x = x + rng.uniform(0.5, 3) * np.sin(2 * np.pi * rng.uniform(0.5, 0.3 / dt) * t + rng.uniform(0, 6))
        out.append(x * scale)
    return out[0], out[1], out[2], dt


def mk_record(ns, ew, vt, dt, degrees_from_north=0.0, meta=None):
    import hvsrpy
    return hvsrpy.SeismicRecording3C(hvsrpy.TimeSeries(ns, dt), hvsrpy.TimeSeries(ew, dt), hvsrpy.TimeSeries(vt, dt),
                                     degrees_from_north=degrees_from_north, meta=meta)


OPERATORS = {
    "konno_and_ohmachi": [20., 40., 60.], "parzen": [0.5, 1.5], "linear_rectangular": [0.5, 2.0], "log_rectangular": [0.05, 0.2],
    "linear_triangular": [0.7, 2.0], "log_triangular": [0.1, 0.3], "savitzky_and_golay": [5, 9],
}


def gen_smoothing(rng, fnyq, n, dt, operator=None):
    operator = operator or str(rng.choice(list(OPERATORS)))
    b = OPERATORS[operator][int(rng.integers(0, len(OPERATORS[operator])))]
    k = int(rng.integers(3, 10))
    if operator == "savitzky_and_golay":
        f = np.fft.rfftfreq(n, dt)
        idx = np.sort(rng.choice(np.arange(10, max(11, len(f) - 10)), size=min(k, max(1, len(f) - 20)), replace=False))
        # centre frequencies on and off the FFT grid (the operator works at the nearest bin; exact half-way points are avoided)
        fcs = f[idx] + (f[1] - f[0]) * rng.choice([0.0, 0.3, -0.3, 0.45, -0.45], size=len(idx))
    else:
        fcs = np.sort(np.exp(rng.uniform(np.log(max(0.2, 2.0 / (n * dt))), np.log(0.9 * fnyq), size=k)))
    # the curves are promised at the centre frequencies *requested*: in a third of the cases these are not in ascending order (descending, or shuffled)
    u = rng.random()
    if u < 0.15:
        fcs = fcs[::-1].copy()
    elif u < 0.33:
        fcs = rng.permutation(fcs)
    return operator, b, fcs


def snapshot_record(r):
    return dict(ns=r.ns.amplitude.copy(), ew=r.ew.amplitude.copy(), vt=r.vt.amplitude.copy(),
                dts=(r.ns.dt_in_seconds, r.ew.dt_in_seconds, r.vt.dt_in_seconds), deg=r.degrees_from_north,
                meta=repr(sorted((str(k), repr(v)) for k, v in r.meta.items())))


def same_snapshot(a, b):
    return (np.array_equal(a["ns"], b["ns"]) and np.array_equal(a["ew"], b["ew"]) and np.array_equal(a["vt"], b["vt"])
            and a["dts"] == b["dts"] and a["deg"] == b["deg"] and a["meta"] == b["meta"])
