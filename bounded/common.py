"""Native side of the checks (runs under /venv/bin/python with PYTHONPATH=/repo:/verif).

Each bounded/Cxx.py evaluates the *executable form* of the Cxx contracts on the real code for generated inputs:
  kind "cross-check" - CPython cross-check of a contract that PyVC proves (engine honesty, DESIGN 3.7) and the
                       replay / directed search used when an obligation is refuted;
  kind "bounded"     - stand-in for a clause no contract within reach decides (bound stated); never counted as proved.
Results are written as JSON for pyvc.check; nothing here decides exit codes.
"""
import argparse
import hashlib
import json
import os
import sys
import time
import traceback
import warnings

import numpy as np

warnings.filterwarnings("ignore")


class Clause:
    def __init__(self, name, kind, bound, function=""):
        self.name, self.kind, self.bound, self.function = name, kind, bound, function
        self.cases = 0
        self.sigs = set()
        self.failures = []
        self.skipped = 0
        self.tier, self.seed = "quick", 0

    def case(self, signature=None, nontrivial=True):
        self.cases += 1
        if nontrivial and signature is not None:
            self.sigs.add(hashlib.md5(repr(signature).encode()).hexdigest())

    def fail(self, function, message, replay=None, signature="", **details):
        if len(self.failures) < 5:
            d = dict(function=function or self.function, message=message, signature=signature,
                     replay=replay or dict(clause=self.name, tier=self.tier, seed=self.seed))
            d.update({k: _js(v) for k, v in details.items()})
            self.failures.append(d)

    def as_dict(self):
        return dict(name=self.name, kind=self.kind, bound=self.bound, function=self.function, cases=self.cases,
                    nontrivial=len(self.sigs), skipped=self.skipped, failures=self.failures)


def _js(v):
    if isinstance(v, np.ndarray):
        return v.tolist() if v.size <= 64 else dict(shape=list(v.shape), head=v.ravel()[:16].tolist())
    if isinstance(v, (np.floating, np.integer, np.bool_)):
        return v.item()
    if isinstance(v, (list, tuple)):
        return [_js(x) for x in v]
    if isinstance(v, dict):
        return {str(k): _js(x) for k, x in v.items()}
    if isinstance(v, (str, int, float, bool)) or v is None:
        return v
    return repr(v)[:300]


def close(a, b, rtol=1e-9, atol=1e-12):
    a, b = np.asarray(a, dtype=float), np.asarray(b, dtype=float)
    if a.shape != b.shape:
        return False
    return bool(np.allclose(a, b, rtol=rtol, atol=atol, equal_nan=True))


def run(clause_fns, argv=None):
    """clause_fns: list of (clause_name, kind, bound_text, function_label, fn(clause, rng, n_cases, replay)) ."""
    ap = argparse.ArgumentParser()
    ap.add_argument("--tier", default="quick")
    ap.add_argument("--seed", type=int, default=0)
    ap.add_argument("--out", required=True)
    ap.add_argument("--focus", default="")
    ap.add_argument("--replay", default="")
    ap.add_argument("--only-focus", action="store_true")
    a = ap.parse_args(argv)
    focus = [x.split(".")[-1].split("[")[0] for x in a.focus.split(",") if x]
    replay = json.loads(a.replay) if a.replay else None
    out = dict(tier=a.tier, seed=a.seed, clauses=[])
    t0 = time.time()
    for name, kind, bound, function, budget, fn in clause_fns:
        if replay is not None and replay.get("clause") != name:
            continue
        if a.only_focus and not (focus and any(f and f in (function + " " + name) for f in focus)):
            continue
        cl = Clause(name, kind, bound, function)
        cl.tier, cl.seed = a.tier, a.seed
        n = budget[0] if a.tier == "quick" else budget[1]
        if focus and any(f and f in (function + " " + name) for f in focus):
            n = int(n * 3)         # directed search: more effort where the prover complained
        rng = np.random.default_rng([a.seed, int(hashlib.md5(name.encode()).hexdigest()[:8], 16)])
        try:
            fn(cl, rng, n, replay.get("args") if replay else None)
        except Exception:
            cl.fail(function, "harness exception: " + traceback.format_exc()[-1200:], signature="exception")
        out["clauses"].append(cl.as_dict())
    out["wall_s"] = time.time() - t0
    with open(a.out, "w") as f:
        json.dump(out, f, indent=1, default=str)
