"""C03 native harness: one curve per recording, input order, independence of the other recordings, time-step policies, Nyquist."""
import itertools

import numpy as np

from bounded.common import close, run
from bounded import refproc as rp

DTS = [0.01, 0.02, 0.005]
FCS = np.array([1.0, 2.0, 4.5, 9.0, 18.0])     # all below the Nyquist of dt=0.02 (25 Hz)
POLICIES = ["frequency_domain_resampling", "keeping_smallest_time_step", "keeping_majority_time_step"]


def _settings(kind, policy, fcs=FCS):
    import hvsrpy
    sm = dict(operator="konno_and_ohmachi", bandwidth=30., center_frequencies_in_hz=np.array(fcs))
    if kind == "traditional":
        return hvsrpy.HvsrTraditionalProcessingSettings(smoothing=sm, handle_dissimilar_time_steps_by=policy, method_to_combine_horizontals="squared_average")
    if kind == "single_azimuth":
        return hvsrpy.HvsrTraditionalSingleAzimuthProcessingSettings(smoothing=sm, handle_dissimilar_time_steps_by=policy, azimuth_in_degrees=35.)
    if kind == "rotdpp":
        return hvsrpy.HvsrTraditionalRotDppProcessingSettings(smoothing=sm, handle_dissimilar_time_steps_by=policy, azimuths_in_degrees=np.array([0., 60., 120.]))
    if kind == "azimuthal":
        return hvsrpy.HvsrAzimuthalProcessingSettings(smoothing=sm, handle_dissimilar_time_steps_by=policy, azimuths_in_degrees=np.array([20., 110.]))
    if kind == "diffuse_field":
        return hvsrpy.HvsrDiffuseFieldProcessingSettings(smoothing=sm, handle_dissimilar_time_steps_by=policy)
    raise KeyError(kind)


def _rows(h):
    import hvsrpy
    if isinstance(h, hvsrpy.HvsrAzimuthal):
        return np.concatenate([x.amplitude for x in h.hvsrs], axis=1)      # per record: all azimuths side by side
    return h.amplitude


def expected_kept(dts, policy):
    idx = list(range(len(dts)))
    if policy == "frequency_domain_resampling":
        return [idx]
    if policy == "keeping_smallest_time_step":
        m = min(dts)
        return [[i for i in idx if dts[i] == m]]
    counts = {d: dts.count(d) for d in set(dts)}
    top = max(counts.values())
    return [[i for i in idx if dts[i] == d] for d in counts if counts[d] == top]     # any most frequent step is acceptable


def order_policy(cl, rng, n, replay):
    import hvsrpy
    kinds = ["traditional", "single_azimuth", "rotdpp", "azimuthal"]
    patterns = []
    for L in (1, 2, 3, 4):
        for pat in itertools.product(range(3), repeat=L):
            if len(set(pat)) <= 2 or L == 3:
                patterns.append(pat)
    rng.shuffle(patterns)
    # always include the arrangements whose grouping permutation is not an involution
    must = [(0, 1, 1, 0), (0, 1, 0, 0), (1, 0, 0, 1), (1, 0, 1, 1), (0, 1, 2), (2, 0, 1), (1, 2, 0, 1)]
    patterns = must + [p for p in patterns if p not in must]
    pool = {}
    done = 0
    for pi, pat in enumerate(patterns):
        if done >= n:
            break
        dts = [DTS[p] for p in pat]
        raws = []
        quiet = pi % 3 == 2          # ground velocity in m/s: amplitudes around 1e-9 (different recordings, all "close" to one another in absolute terms)
        for i, dt in enumerate(dts):
            raws.append(rp.gen_window(rng, N=int(rng.integers(60, 140)), dt=dt, scale=(1e-9 if quiet else 1.0)))
        if len(raws) >= 3 and pi % 3 != 2:
            # the same recording given twice, not next to each other (an identical copy is still its own entry of the list)
            twins = [(a, b_) for a in range(len(raws)) for b_ in range(a + 2, len(raws)) if dts[a] == dts[b_]]
            if twins:
                a, b_ = twins[int(rng.integers(0, len(twins)))]
                raws[b_] = tuple(np.array(x, copy=True) if isinstance(x, np.ndarray) else x for x in raws[a])
        for kind in kinds:
            alone = []
            for r in raws:
                s = _settings(kind, "frequency_domain_resampling")
                alone.append(_rows(hvsrpy.process([rp.mk_record(*r)], s))[0])
            for policy in POLICIES:
                s = _settings(kind, policy)
                recs = [rp.mk_record(*r) for r in raws]
                try:
                    h = hvsrpy.process(recs, s)
                except Exception as ex:
                    cl.fail(f"hvsrpy.processing.process[{kind}]", f"raised {type(ex).__name__}: {ex}", signature=f"{kind}:{policy}:raise", pattern=pat)
                    return
                rows = _rows(h)
                cl.case((pat, kind, policy), nontrivial=len(set(pat)) > 1)
                done += 1
                ok_sets = expected_kept(dts, policy)
                match = None
                for kept in ok_sets:
                    if rows.shape[0] == len(kept) and all(close(rows[j], alone[i], rtol=1e-10, atol=0) for j, i in enumerate(kept)):
                        match = kept
                if match is None:
                    cl.fail(f"hvsrpy.processing.process[{kind}]",
                            f"policy {policy}, time-step pattern {pat}: rows are not the curves of exactly the retained recordings in input order "
                            f"(each compared with the recording processed alone)", signature=f"{kind}:{policy}:rows", pattern=pat,
                            n_rows=int(rows.shape[0]), expected_retained=ok_sets)
                    return
                freq = h.frequency
                if not close(freq, FCS, 0, 0) or not np.all(np.isfinite(rows)) or np.any(rows < 0):
                    cl.fail(f"hvsrpy.processing.process[{kind}]", "frequency vector differs from the requested centre frequencies or amplitudes not finite/non-negative",
                            signature=f"{kind}:{policy}:values", pattern=pat)
                    return


def many_recordings(cl, rng, n, replay):
    """long lists (5 .. 48 recordings, two or three time steps interleaved at random): the selection made for the three policies is exactly the recordings the policy names,
    as the same objects, in their original order (the selection routine called directly: no curve is computed, so long lists are cheap), and process() of such a list
    returns one row per retained recording"""
    import hvsrpy
    from hvsrpy import processing as pr
    for j in range(n):
        L = int(rng.choice([5, 8, 12, 17, 24, 33, 48]))
        steps = [DTS[i] for i in rng.choice(3, size=int(rng.integers(2, 4)), replace=False)]
        dts = [steps[int(i)] for i in rng.integers(0, len(steps), L)]
        if len(set(dts)) < 2:
            dts[int(rng.integers(0, L))] = [d for d in steps if d != dts[0]][0]
        recs = [rp.mk_record(*rp.gen_window(rng, N=int(rng.integers(20, 40)), dt=dt)) for dt in dts]
        for policy in POLICIES:
            s = _settings("traditional", policy)
            given = list(recs)
            try:
                kept, table = pr.prepare_records_with_inconsistent_dt(given, s)
            except Exception as ex:
                cl.fail("hvsrpy.processing.prepare_records_with_inconsistent_dt", f"raised {type(ex).__name__}: {ex}", signature=f"many:{policy}:raise")
                return
            cl.case((L, tuple(dts), policy))
            if len(given) != L or any(a is not b_ for a, b_ in zip(given, recs)):
                cl.fail("hvsrpy.processing.prepare_records_with_inconsistent_dt", "the caller's list was changed", signature=f"many:{policy}:caller-list")
                return
            ok_sets = expected_kept(dts, policy)
            if policy == "frequency_domain_resampling":
                # all recordings, each exactly once (the routine may group them by time step: process() restores the order, checked by the other clause)
                ok = len(kept) == L and sorted(id(k) for k in kept) == sorted(id(r) for r in recs)
            else:
                ok = any(len(kept) == len(ks) and all(k is recs[i] for k, i in zip(kept, ks)) for ks in ok_sets)
            if not ok:
                cl.fail("hvsrpy.processing.prepare_records_with_inconsistent_dt",
                        f"policy {policy}, {L} recordings with time steps {dts}: the selection is not exactly the recordings the policy names, in their original order",
                        signature=f"many:{policy}:selection", time_steps=dts, selected=[next((i for i, r in enumerate(recs) if r is k), -1) for k in kept], expected=ok_sets)
                return


def nyquist(cl, rng, n, replay):
    import hvsrpy
    kinds = ["traditional", "single_azimuth", "rotdpp", "azimuthal", "diffuse_field"]
    pats = [(0,), (1,), (0, 1), (1, 0), (0, 0, 1), (0, 1, 0), (1, 0, 0), (1, 1, 0), (0, 1, 1), (1, 0, 1), (0, 1, 1, 0)]
    done = 0
    for pat in pats:
        dts = [DTS[p] for p in pat]       # 0.01 (Nyquist 50) and 0.02 (Nyquist 25)
        raws = [rp.gen_window(rng, N=int(rng.integers(60, 120)), dt=dt, scale=1.0) for dt in dts]
        for top in (20.0, 24.9, 26.0, 40.0, 49.0, 51.0):
            fcs = np.array([2.0, 5.0, 11.0, top])
            for kind in kinds:
                for policy in POLICIES:
                    if done >= n:
                        return
                    kept_sets = expected_kept(dts, policy)
                    if kind == "diffuse_field" and any(len({dts[i] for i in kept}) > 1 for kept in kept_sets):
                        must_refuse = [True]
                    else:
                        must_refuse = [top > 0.5 / max(dts[i] for i in kept) for kept in kept_sets]
                    s = _settings(kind, policy, fcs)
                    try:
                        hvsrpy.process([rp.mk_record(*r) for r in raws], s)
                        refused = False
                    except ValueError:
                        refused = True
                    except Exception as ex:
                        cl.fail(f"hvsrpy.processing.process[{kind}]", f"unexpected {type(ex).__name__}: {ex}", signature=f"nyquist:{kind}:exc", pattern=pat)
                        return
                    cl.case((pat, top, kind, policy))
                    done += 1
                    if refused not in must_refuse:
                        cl.fail(f"hvsrpy.processing.process[{kind}]",
                                f"centre frequency {top} Hz, time steps {dts}, policy {policy}: {'refused' if refused else 'reported'} but the Nyquist "
                                f"frequency of a processed recording {'is not' if refused else 'is'} exceeded", signature=f"nyquist:{kind}:{policy}",
                                pattern=pat, top=top)
                        return


CLAUSES = [
    ("bounded:rows == curves of the retained recordings in input order (each == recording processed alone)", "bounded",
     "all arrangements of <=3 time steps over 1-4 recordings (non-involutive groupings first), 4 methods x 3 policies", "hvsrpy.processing.process", (150, 1500), order_policy),
    ("bounded:centre frequencies above the Nyquist of a processed recording are refused, others are not", "bounded",
     "11 arrangements x 6 top frequencies x 5 methods x 3 policies", "hvsrpy.processing.check_nyquist_frequency", (400, 990), nyquist),
    ("bounded:long lists (5 .. 48 recordings, interleaved time steps): each policy selects exactly the recordings it names, as the same objects, in their original order", "bounded",
     "list lengths 5 / 8 / 12 / 17 / 24 / 33 / 48, two or three time steps drawn per position, 3 policies", "hvsrpy.processing.prepare_records_with_inconsistent_dt", (60, 600), many_recordings),
]

if __name__ == "__main__":
    run(CLAUSES)
