"""C18 native harness: recordings persist exactly, copies are independent, trim keeps the right samples."""
import os
import tempfile

import numpy as np

from bounded.common import close, run
from bounded import refproc as rp


def _ops(rng, rec, log):
    import hvsrpy
    for _ in range(int(rng.integers(0, 5))):
        op = int(rng.integers(0, 5))
        n = rec.ns.n_samples
        dt = rec.ns.dt_in_seconds
        if op == 0 and n > 20:
            a = float(rng.uniform(0, 0.3) * (n - 1) * dt)
            b = float(rng.uniform(0.6, 1.0) * (n - 1) * dt)
            rec.trim(a, b)
            log.append(("trim", a, b))
        elif op == 1 and n > 40:          # scipy's zero-phase filter needs more samples than its padding (18 for this design)
            rec.butterworth_filter((float(rng.uniform(0.2, 1.0)), None))
            log.append(("filter",))
        elif op == 1:
            continue
        elif op == 2:
            t = str(rng.choice(["linear", "constant"]))
            rec.detrend(type=t)
            log.append(("detrend", t))
        elif op == 3:
            rec.window(type="tukey", width=float(rng.choice([0.1, 0.5])))
            log.append(("window",))
        else:
            a = float(rng.choice([0., 45., 400., -30., 123.4]))
            rec.orient_sensor_to(a)
            log.append(("orient", a))


def persist_clause(cl, rng, n, replay):
    import hvsrpy
    d = tempfile.mkdtemp(prefix="c18_")
    try:
        for j in range(n):
            N = int(rng.integers(30, 300))
            dt = float(rng.choice([0.01, 1 / 75, 0.004, 0.02]))
            comp = [rng.normal(0, 10.0 ** rng.integers(-8, 8), N) for _ in range(3)]
            if j % 7 == 0:
                comp[0][:3] = [-0.0, 1e-300, 1.7976931348623157e308 / 4]
            rec = rp.mk_record(*comp, dt, degrees_from_north=float(rng.choice([0., 15., 359.9])), meta={"station": "X1", "note": [1, 2, {"a": None}]})
            log = []
            _ops(rng, rec, log)
            if j % 4 == 2:
                # a sensor deployed off north and turned to north (exactly 0, given as 0 or as a full turn) as the last step before saving: the orientation restored is 0,
                # not the deployed one (a stored 0 is a value, not a missing entry)
                if rec.degrees_from_north == 0:
                    rec.orient_sensor_to(float(rng.choice([30., 212.5])))
                    log.append(("orient", "off north"))
                a = float(rng.choice([0., 360., 720.]))
                rec.orient_sensor_to(a)
                log.append(("orient", a))
            fn = os.path.join(d, f"r{j}.json")
            rec.save(fn)
            back = hvsrpy.SeismicRecording3C.load(fn)
            cl.case((j, tuple(map(str, log))), nontrivial=len(log) > 0)
            ok = all(getattr(back, c).amplitude.tobytes() == getattr(rec, c).amplitude.tobytes() and getattr(back, c).dt_in_seconds == getattr(rec, c).dt_in_seconds
                     for c in ("ns", "ew", "vt"))
            if not ok:
                cl.fail("hvsrpy.seismic_recording_3c.SeismicRecording3C.save", f"samples / time step not restored bit for bit after {log}", signature="persist:samples")
                return
            if j % 2 == 1:
                # the same recording saved a second time after further operations (the in-place taper among them): the file holds its state at that save
                log2 = []
                rec.window(type="tukey", width=float(rng.choice([0.2, 0.5])))
                log2.append("window")
                if rng.random() < 0.5:
                    _ops(rng, rec, log2)
                rec.save(fn)
                back = hvsrpy.SeismicRecording3C.load(fn)
                cl.case((j, tuple(map(str, log)), "second save", tuple(map(str, log2))), nontrivial=True)
                if not all(getattr(back, c).amplitude.tobytes() == getattr(rec, c).amplitude.tobytes() and getattr(back, c).dt_in_seconds == getattr(rec, c).dt_in_seconds
                           for c in ("ns", "ew", "vt")):
                    cl.fail("hvsrpy.seismic_recording_3c.SeismicRecording3C.save", f"second save of the same recording after {log2}: the file does not hold its current samples",
                            signature="persist:second-save")
                    return
            dd = rec.degrees_from_north
            if abs(((back.degrees_from_north - dd) / 360) - round((back.degrees_from_north - dd) / 360)) > 1e-12 or not (0 <= back.degrees_from_north < 360):
                cl.fail("hvsrpy.seismic_recording_3c.SeismicRecording3C.load", f"orientation {dd} restored as {back.degrees_from_north}", signature="persist:orientation")
                return

            def norm(x):
                if isinstance(x, (list, tuple)):
                    return [norm(v) for v in x]
                if isinstance(x, dict):
                    return {str(k): norm(v) for k, v in x.items()}
                return x
            m0, m1 = norm(rec.meta), norm(back.meta)
            for k in m0:
                if k in ("current degrees from north",):
                    continue
                if k not in m1 or m1[k] != m0[k]:
                    cl.fail("hvsrpy.seismic_recording_3c.SeismicRecording3C._to_dict", f"meta entry {k!r} not restored: {m0[k]!r} vs {m1.get(k)!r}", signature="persist:meta")
                    return
    finally:
        import shutil
        shutil.rmtree(d, ignore_errors=True)


def independence_clause(cl, rng, n, replay):
    import hvsrpy
    for j in range(n):
        N = int(rng.integers(20, 120))
        arrs = [rng.normal(0, 1, N) for _ in range(3)]
        ts = [hvsrpy.TimeSeries(a, 0.01) for a in arrs]
        shared_component = j % 4 == 0
        rec = hvsrpy.SeismicRecording3C(ts[0], ts[0] if shared_component else ts[1], ts[2])
        objs = {"TimeSeries(array)": [(ts[0].amplitude, arrs[0])],
                "SeismicRecording3C(components)": [(rec.ns.amplitude, ts[0].amplitude), (rec.ew.amplitude, (ts[0] if shared_component else ts[1]).amplitude),
                                                   (rec.vt.amplitude, ts[2].amplitude), (rec.ns.amplitude, rec.ew.amplitude)]}
        cp = hvsrpy.TimeSeries.from_timeseries(ts[1])
        objs["TimeSeries.from_timeseries"] = [(cp.amplitude, ts[1].amplitude)]
        rc = hvsrpy.SeismicRecording3C.from_seismic_recording_3c(rec)
        objs["SeismicRecording3C.from_seismic_recording_3c"] = [(getattr(rc, c).amplitude, getattr(rec, c).amplitude) for c in ("ns", "ew", "vt")]
        if j % 3 == 0:
            rec.trim(0.02, (N - 3) * 0.01)         # the slice taken by trim is a view of the recording's own array only
            objs["after trim"] = [(rec.ns.amplitude, ts[0].amplitude), (rec.vt.amplitude, ts[2].amplitude)]
        wins = rec.split(0.05)
        objs["SeismicRecording3C.split"] = [(getattr(w, c).amplitude, getattr(rec, c).amplitude) for w in wins for c in ("ns", "ew", "vt")]
        objs["split windows among themselves"] = [(wins[0].ns.amplitude, wins[1].ns.amplitude)] if len(wins) > 1 else []
        tw = ts[2].split(0.05)
        objs["TimeSeries.split"] = [(w.amplitude, ts[2].amplitude) for w in tw]
        # the boundary cases of a split: one window that is the whole record (window length = record length), and windows one sample shorter than that
        whole = ts[2].split((ts[2].n_samples - 1) * 0.01)
        objs["TimeSeries.split (one window covering the whole record)"] = [(w.amplitude, ts[2].amplitude) for w in whole]
        if len(whole) != 1 or any(w is ts[2] for w in whole) or not np.array_equal(whole[0].amplitude, ts[2].amplitude):
            cl.fail("hvsrpy.timeseries.TimeSeries.split", "a window as long as the record: not one new window holding the record's samples", signature="independence:split-whole")
            return
        whole_rec = rec.split((rec.ns.n_samples - 1) * 0.01)
        objs["SeismicRecording3C.split (one window covering the whole record)"] = [(getattr(w, c).amplitude, getattr(rec, c).amplitude) for w in whole_rec for c in ("ns", "ew", "vt")]
        cl.case((j, N, shared_component))
        for what, pairs in objs.items():
            for a, b in pairs:
                if np.shares_memory(a, b):
                    cl.fail("hvsrpy." + what, f"{what}: the copy shares sample storage with its source", signature="independence:" + what.split("(")[0])
                    return
        # behavioural: editing one never alters the other
        before = rec.ns.amplitude.copy()
        rc.ns.amplitude[:] = 7.0
        wins[0].ns.amplitude *= 0.0
        cp.window()
        if not np.array_equal(rec.ns.amplitude, before):
            cl.fail("hvsrpy.seismic_recording_3c.SeismicRecording3C", "editing a copy / window changed the source", signature="independence:behaviour")
            return


def trim_clause(cl, rng, n, replay):
    import hvsrpy
    for j in range(n):
        N = int(rng.integers(2, 200))
        dt = float(rng.choice([0.01, 1 / 75, 0.004, 0.5, 0.3]))
        x = rng.normal(0, 1, N)
        t = np.arange(N) * dt
        mode = j % 6
        if mode == 0:
            a, b = float(rng.choice(t)), float(rng.choice(t))
        elif mode == 1:
            a, b = float(rng.uniform(-0.2, 1.2) * t[-1]), float(rng.uniform(-0.2, 1.2) * t[-1])
        elif mode == 2:
            a, b = float(rng.uniform(0, t[-1])), float(rng.uniform(0, t[-1]))
        elif mode == 3:
            i, k = sorted(rng.integers(0, N, 2))
            a, b = float(t[i] + rng.uniform(0.05, 0.45) * dt), float(t[k] - rng.uniform(0.05, 0.45) * dt)       # both off-grid, snapping in opposite directions
        elif mode == 4:
            a, b = 0.0, float(t[-1])
        else:
            a, b = float(rng.uniform(0, t[-1])), float(t[-1] + dt * rng.choice([1e-9, 0.3, 2]))
        ts = hvsrpy.TimeSeries(x, dt)
        must_refuse = a < 0 or a >= b or b > t[-1]
        # nearest samples (first index of the minimum distance); set aside exact ties between two samples
        da, db = np.abs(t - a), np.abs(t - b)
        sa, sb = int(np.argmin(da)), int(np.argmin(db))
        tie = (np.sum(np.isclose(da, da.min(), rtol=0, atol=1e-12 * max(1, abs(a)))) > 1) or (np.sum(np.isclose(db, db.min(), rtol=0, atol=1e-12 * max(1, abs(b)))) > 1)
        try:
            ts.trim(a, b)
            refused = False
        except IndexError:
            refused = True
        cl.case((j, N, dt, a, b), nontrivial=not must_refuse)
        if refused != must_refuse:
            cl.fail("hvsrpy.timeseries.TimeSeries.trim", f"trim({a}, {b}) on a record ending at {t[-1]}: {'refused' if refused else 'accepted'}", signature="trim:range")
            return
        if refused or tie:
            continue
        if not np.array_equal(ts.amplitude, x[sa:sb + 1]):
            cl.fail("hvsrpy.timeseries.TimeSeries.trim", f"trim({a}, {b}), dt={dt}: kept samples are not those from the one nearest start ({sa}) through the one nearest end ({sb})",
                    signature="trim:samples", kept=int(ts.n_samples), expected=int(sb - sa + 1))
            return
        rec = rp.mk_record(x, 2 * x, -x, dt)
        rec.trim(a, b)
        if not (np.array_equal(rec.ns.amplitude, x[sa:sb + 1]) and np.array_equal(rec.ew.amplitude, 2 * x[sa:sb + 1]) and np.array_equal(rec.vt.amplitude, -x[sa:sb + 1])):
            cl.fail("hvsrpy.seismic_recording_3c.SeismicRecording3C.trim", "components are not trimmed identically", signature="trim:record")
            return


CLAUSES = [
    ("bounded:save/load restores samples bit for bit, dt, orientation (mod 360) and meta content after random operation sequences", "bounded",
     "30-300 samples, magnitudes 1e-8..1e8 incl. -0.0 / 1e-300 / huge, up to 4 operations of trim/filter/detrend/taper/orient", "hvsrpy.seismic_recording_3c.SeismicRecording3C.save", (40, 1000), persist_clause),
    ("cross-check:copies, splits and stored components share no sample storage with their source", "cross-check", "np.shares_memory on every pair + behavioural edit test",
     "hvsrpy.seismic_recording_3c.SeismicRecording3C.__init__", (40, 600), independence_clause),
    ("cross-check:trim keeps the samples nearest start .. nearest end and refuses illogical ranges", "cross-check", "2-200 samples, 5 time steps, 6 interval families incl. off-grid ends snapping in opposite directions",
     "hvsrpy.timeseries.TimeSeries.trim", (300, 6000), trim_clause),
]

if __name__ == "__main__":
    run(CLAUSES)
