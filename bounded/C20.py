"""C20 native harness: plotting / summary functions are read-only and draw the object's state (Agg backend, artists inspected)."""
import numpy as np

from bounded.common import close, run
from bounded import stats_ref as sr
from bounded import refproc as rp
from bounded.C05 import gen_object
from bounded.C11 import gen_az, reject_some
from bounded.C09 import meta_of


def deep_snapshot(h):
    import hvsrpy
    if isinstance(h, hvsrpy.HvsrAzimuthal):
        return ("az", tuple(h.azimuths), tuple(deep_snapshot(x) for x in h.hvsrs), meta_of(h))
    if isinstance(h, hvsrpy.HvsrTraditional):
        return ("tr", h.frequency.tobytes(), h.amplitude.tobytes(), h.valid_window_boolean_mask.tobytes(), h.valid_peak_boolean_mask.tobytes(),
                h._main_peak_frq.tobytes(), h._main_peak_amp.tobytes(), tuple(h._search_range_in_hz), repr(h._find_peaks_kwargs), meta_of(h))
    return ("df", h.frequency.tobytes(), h.amplitude.tobytes(), repr(h.peak_frequency), repr(h.peak_amplitude), repr(h._search_range_in_hz), meta_of(h))


def lines_like(ax, style):
    import matplotlib.colors as mc
    out = []
    for ln in ax.get_lines():
        ok = True
        if "color" in style and "marker" not in style:
            ok &= mc.to_rgba(ln.get_color()) == mc.to_rgba(style["color"])
        if "linewidth" in style:
            ok &= abs(ln.get_linewidth() - style["linewidth"]) < 1e-9
        if "linestyle" in style:
            ok &= ln.get_linestyle() in ({"--": "--", "": "None"}[style["linestyle"]],)
        elif "marker" not in style:
            ok &= ln.get_linestyle() == "-"
        if "marker" in style:
            ok &= ln.get_marker() == style["marker"] and mc.to_rgba(ln.get_markerfacecolor()) == mc.to_rgba(style["markerfacecolor"])
        else:
            ok &= ln.get_marker() in ("None", None, "")
        if ok:
            out.append(ln)
    return out


def single_panel_clause(cl, rng, n, replay):
    import matplotlib
    matplotlib.use("Agg")
    import matplotlib.pyplot as plt
    import hvsrpy
    from hvsrpy.postprocessing import DEFAULT_KWARGS as DK
    dk0 = repr(DK)
    for j in range(n):
        kind = j % 3
        if kind == 0:
            h, f, A = gen_object(rng)
            sel = rng.random(len(A)) < 0.7
            sel &= ~np.isnan(h._main_peak_frq)
            if sel.sum() < 3:
                sel = ~np.isnan(h._main_peak_frq)
            if sel.sum() < 3:
                cl.skipped += 1
                continue
            h.valid_window_boolean_mask = np.array(sel)
            h.valid_peak_boolean_mask = np.array(sel)
            if j % 2:           # a window kept but its peak rejected
                k = int(np.flatnonzero(sel)[0])
                h.valid_peak_boolean_mask[k] = False
            parts = [(h, A)]
        elif kind == 1:
            h, f, As = gen_az(rng, naz=int(rng.integers(1, 4)))
            reject_some(rng, h)
            uneven = (j // 3) % 2 == 0 and len(h.hvsrs) >= 2
            if uneven:
                # an uneven rejection history: nothing rejected on the first azimuth, something on the last (every rejected window of every azimuth has its line)
                first, last = h.hvsrs[0], h.hvsrs[-1]
                first.valid_window_boolean_mask = np.ones(len(first.valid_window_boolean_mask), dtype=bool)
                first.valid_peak_boolean_mask = np.ones(len(first.valid_peak_boolean_mask), dtype=bool)
                k = int(np.flatnonzero(last.valid_window_boolean_mask)[-1])
                if last.valid_window_boolean_mask.sum() >= 3:
                    last.valid_window_boolean_mask[k] = False
                    last.valid_peak_boolean_mask[k] = False
            parts = list(zip(h.hvsrs, As))
        else:
            m = 40
            f = np.geomspace(0.2, 20, m)
            h = hvsrpy.HvsrDiffuseField(f, 1 + 3 * np.exp(-(np.log(f / 2.0) / 0.3) ** 2))
            parts = []
        dmc, dfn = [("lognormal", "lognormal"), ("normal", "lognormal"), ("lognormal", "normal"), ("normal", "normal")][(j // 3) % 4]
        opts = dict(plot_valid_curves=bool(rng.integers(0, 2)), plot_invalid_curves=bool(rng.integers(0, 2)), plot_mean_curve=True,
                    plot_frequency_std=bool(rng.integers(0, 2)), plot_peak_mean_curve=bool(rng.integers(0, 2)),
                    plot_peak_individual_valid_curves=bool(rng.integers(0, 2)), plot_peak_individual_invalid_curves=bool(rng.integers(0, 2)))
        if kind == 1 and uneven:
            opts["plot_invalid_curves"] = True
        # every spelling the library's own DISTRIBUTION_MAP declares names the same distribution
        if (j // 2) % 2:
            dmc = "log-normal" if dmc == "lognormal" else dmc
        snap = deep_snapshot(h)
        try:
            fig, ax = hvsrpy.plot_single_panel_hvsr_curves(h, distribution_mc=dmc, distribution_fn=dfn, **opts)
        except ValueError:
            plt.close("all")
            if deep_snapshot(h) != snap:
                cl.fail("hvsrpy.postprocessing.plot_single_panel_hvsr_curves", "object changed although plotting raised", signature="plot:frame-on-raise")
                return
            cl.skipped += 1
            continue
        cl.case((j, kind, dmc, dfn, tuple(sorted(opts.items()))))
        try:
            if deep_snapshot(h) != snap or repr(DK) != dk0:
                cl.fail("hvsrpy.postprocessing.plot_single_panel_hvsr_curves", "plotting changed the HVSR object (or DEFAULT_KWARGS)", signature="plot:frame")
                return
            if kind != 2:
                for valid, key, flag in ((True, "individual_valid_hvsr_curve", opts["plot_valid_curves"]), (False, "individual_invalid_hvsr_curve", opts["plot_invalid_curves"])):
                    got = lines_like(ax, DK[key])
                    want = [A[i] for hv, A in parts for i in np.flatnonzero(hv.valid_window_boolean_mask if valid else ~hv.valid_window_boolean_mask)] if flag else []
                    if len(got) != len(want) or any(not np.array_equal(g.get_ydata(), w) or not np.array_equal(g.get_xdata(), h.frequency) for g, w in zip(got, want)):
                        cl.fail("hvsrpy.postprocessing._plot_individual_hvsr_curves", f"{'accepted' if valid else 'rejected'}-style lines: {len(got)} drawn, {len(want)} windows in that state "
                                "(or a line does not carry its window's curve)", signature="plot:individual", valid=valid)
                        return
                for valid, key, flag in ((True, "peak_individual_valid_hvsr_curve", opts["plot_peak_individual_valid_curves"]),
                                         (False, "peak_individual_invalid_hvsr_curve", opts["plot_peak_individual_invalid_curves"])):
                    got = lines_like(ax, DK[key])
                    xs = np.concatenate([g.get_xdata() for g in got]) if got else np.array([])
                    want = np.concatenate([hv._main_peak_frq[hv.valid_peak_boolean_mask if valid else ~hv.valid_peak_boolean_mask] for hv, A in parts]) if flag else np.array([])
                    if not np.array_equal(xs, want, equal_nan=True):
                        cl.fail("hvsrpy.postprocessing._plot_peak_individual_hvsr_curve", "peak markers do not equal the object's (accepted / rejected) peaks", signature="plot:peaks", valid=valid)
                        return
            mean_lines = lines_like(ax, DK["mean_hvsr_curve"])
            if len(mean_lines) != 1 or not np.array_equal(mean_lines[0].get_ydata(), h.mean_curve(dmc)):
                cl.fail("hvsrpy.postprocessing._plot_mean_hvsr_curve", f"the mean curve drawn is not mean_curve({dmc})", signature="plot:mean")
                return
            if kind != 2:
                sd = lines_like(ax, DK["nth_std_mean_hvsr_curve"])
                want = [h.nth_std_curve(+1, dmc), h.nth_std_curve(-1, dmc)]
                if len(sd) != 2 or not all(any(np.array_equal(s.get_ydata(), w) for s in sd) for w in want):
                    cl.fail("hvsrpy.postprocessing._plot_nth_std_hvsr_curve", "the dashed curves are not nth_std_curve(+1) and nth_std_curve(-1)", signature="plot:std")
                    return
            key = "peak_mean_hvsr_curve_azimuthal" if kind == 1 else "peak_mean_hvsr_curve"
            mk = [ln for ln in ax.get_lines() if ln.get_marker() == "D"]
            if opts["plot_peak_mean_curve"]:
                want = h.mean_curve_peak(dmc)
                if len(mk) != 1 or not (close(mk[0].get_xdata(), [want[0]], 0, 0) and close(mk[0].get_ydata(), [want[1]], 0, 0)):
                    cl.fail("hvsrpy.postprocessing._plot_peak_mean_hvsr_curve", f"the mean-curve peak marker is not mean_curve_peak({dmc})", signature="plot:mcpeak", dmc=dmc, dfn=dfn)
                    return
            elif mk:
                cl.fail("hvsrpy.postprocessing.plot_single_panel_hvsr_curves", "mean-curve peak drawn although switched off", signature="plot:option")
                return
            if kind != 2 and opts["plot_frequency_std"]:
                polys = [p for p in ax.patches]
                lo, hi = h.nth_std_fn_frequency(-1, dfn), h.nth_std_fn_frequency(+1, dfn)
                ok = any(close(sorted(set(np.round(p.get_xy()[:, 0], 12))), sorted({round(lo, 12), round(hi, 12)}), 1e-12) for p in polys)
                if not ok:
                    cl.fail("hvsrpy.postprocessing._plot_nth_std_frequency_range", f"the fn band is not nth_std_fn_frequency(-+1, {dfn})", signature="plot:band")
                    return
        finally:
            plt.close("all")


def other_functions_clause(cl, rng, n, replay):
    import matplotlib
    matplotlib.use("Agg")
    import matplotlib.pyplot as plt
    import hvsrpy
    import hvsrpy.postprocessing as pp
    captured = []
    old_display = pp.display
    pp.display = lambda s: captured.append(s)
    try:
        for j in range(n):
            # summary table
            h, f, A = gen_object(rng)
            if (~np.isnan(h._main_peak_frq)).sum() < 3:
                cl.skipped += 1
                continue
            if j % 2:
                h, f, As = gen_az(rng, naz=2)
                reject_some(rng, h)
            dfn = ["lognormal", "normal"][(j // 2) % 2]
            snap = deep_snapshot(h)
            captured.clear()
            try:
                hvsrpy.summarize_hvsr_statistics(h, distribution_mc="lognormal", distribution_fn=dfn)
            except ValueError:
                cl.skipped += 1
                continue
            cl.case(("table", j, dfn))
            if deep_snapshot(h) != snap:
                cl.fail("hvsrpy.postprocessing.summarize_hvsr_statistics", "the summary changed the object", signature="table:frame")
                return
            df = captured[0].data
            row = df.values
            want_f = [h.mean_fn_frequency(dfn), h.std_fn_frequency(dfn), h.nth_std_fn_frequency(-1, dfn), h.nth_std_fn_frequency(+1, dfn)]
            want_a = [h.mean_fn_amplitude(dfn), h.std_fn_amplitude(dfn), h.nth_std_fn_amplitude(-1, dfn), h.nth_std_fn_amplitude(+1, dfn)]
            if not (close(row[0], want_f, 1e-12) and close(row[2], want_a, 1e-12)):
                cl.fail("hvsrpy.postprocessing.summarize_hvsr_statistics", "frequency / amplitude rows are not the object's fn statistics", signature="table:rows", dfn=dfn)
                return
            if dfn == "lognormal":
                import hvsrpy as hv
                pf = np.concatenate([x._main_peak_frq[x.valid_peak_boolean_mask] for x in (h.hvsrs if isinstance(h, hv.HvsrAzimuthal) else [h])])
                if isinstance(h, hv.HvsrAzimuthal):
                    w = sr.cheng_weights([int(x.valid_peak_boolean_mask.sum()) for x in h.hvsrs])
                    med, sd = sr.wmean("lognormal", 1 / pf, w), sr.wstd("lognormal", 1 / pf, w)
                else:
                    med, sd = sr.mean("lognormal", 1 / pf), sr.std("lognormal", 1 / pf)
                if not (close(row[1][0], med, 1e-9) and close(row[1][1], sd, 1e-9)):
                    cl.fail("hvsrpy.postprocessing.summarize_hvsr_statistics", "period row does not start with the lognormal median and log-standard deviation of 1/fn",
                            signature="table:period")
                    return
            # recordings plot is read-only
            recs = [rp.mk_record(*rp.gen_window(rng, N=120, dt=0.01, scale=1.0)) for _ in range(3)]
            snaps = [rp.snapshot_record(r) for r in recs]
            mask = np.array([True, False, True])
            hvsrpy.plot_seismic_recordings_3c(recs, valid_window_boolean_mask=mask)
            plt.close("all")
            if any(not rp.same_snapshot(a, rp.snapshot_record(r)) for a, r in zip(snaps, recs)) or not np.array_equal(mask, [True, False, True]):
                cl.fail("hvsrpy.postprocessing.plot_seismic_recordings_3c", "plotting changed the recordings / the mask", signature="plot:records-frame")
                return
            # azimuthal contour: the per-azimuth markers are the object's mean-curve peaks, searched in the object's search range (two-mode curves whose
            # higher peak lies outside the range)
            f3 = np.geomspace(0.2, 20, 60)
            two = lambda: np.array([1 + 2 * np.exp(-(np.log(f3 / rng.uniform(0.9, 1.3)) / 0.2) ** 2) + 4 * np.exp(-(np.log(f3 / rng.uniform(5.5, 7)) / 0.2) ** 2) for _ in range(4)])
            hb = hvsrpy.HvsrAzimuthal([hvsrpy.HvsrTraditional(f3, two()) for _ in range(3)], [0., 60., 120.])
            hb.update_peaks_bounded(search_range_in_hz=(0.4, 3.0))
            want_f, _ = hb.mean_curve_peak_by_azimuth(distribution="lognormal")
            figc, (axc, _cax) = hvsrpy.plot_azimuthal_contour_2d(hb, distribution_mc="lognormal")
            marks = [ln for ln in axc.get_lines() if ln.get_marker() == "s"]
            okc = len(marks) == 1 and np.allclose(marks[0].get_xdata(), want_f, rtol=0, atol=1e-12) and np.allclose(marks[0].get_ydata(), hb.azimuths)
            plt.close("all")
            cl.case(("contour-markers", j))
            if not okc:
                cl.fail("hvsrpy.postprocessing.plot_azimuthal_contour_2d", "the per-azimuth peak markers are not the object's mean-curve peaks in its search range",
                        signature="plot:contour-markers")
                return
            # azimuthal contour plots are read-only
            ha, f2, As2 = gen_az(rng, naz=3)
            reject_some(rng, ha)
            s2 = deep_snapshot(ha)
            try:
                hvsrpy.plot_azimuthal_contour_2d(ha)
                hvsrpy.plot_azimuthal_contour_3d(ha)
                hvsrpy.plot_azimuthal_summary(ha)
            except ValueError:
                pass
            finally:
                plt.close("all")
            if deep_snapshot(ha) != s2:
                cl.fail("hvsrpy.postprocessing.plot_azimuthal_summary", "an azimuthal plot changed the object", signature="plot:azimuthal-frame")
                return
    finally:
        pp.display = old_display
        plt.close("all")


def pre_post_clause(cl, rng, n, replay):
    import matplotlib
    matplotlib.use("Agg")
    import matplotlib.pyplot as plt
    import hvsrpy
    from hvsrpy.postprocessing import DEFAULT_KWARGS as DK
    for j in range(n):
        f = np.geomspace(0.2, 20, 40)
        bump = lambda fc: 1 + 3 * np.exp(-(np.log(f / fc) / 0.25) ** 2)
        k = int(rng.integers(4, 8))
        A = np.array([bump(rng.uniform(0.8, 4)) for _ in range(k)])
        raise_case = j % 4 == 3
        if raise_case:
            # accepted = two bumps, rejected = steep monotone curves: the all-accepted state has no mean-curve peak in the range
            # (the ramps are made steep enough for the mean curve - arithmetic and geometric - of all five windows to decrease monotonically: checked here, not assumed)
            for steep in (4.0, 5.0, 6.0, 8.0):
                A = np.array([bump(2.0), bump(2.2)] + [10.0 ** (2 * steep) * rng.uniform(1, 2) * (f / f[0]) ** (-steep) + 1.0 for _ in range(3)])
                if np.all(np.diff(A.mean(axis=0)) < 0) and np.all(np.diff(np.log(A).mean(axis=0)) < 0):
                    break
            k = 5
        h = hvsrpy.HvsrTraditional(f, A)
        sel = rng.random(k) < 0.7
        sel[:2] = True
        if raise_case:
            sel = np.array([True, True, False, False, False])
        h.valid_window_boolean_mask = np.array(sel)
        h.valid_peak_boolean_mask = np.array(sel)
        if j % 2 == 0 and sel.sum() > 2:
            h.valid_peak_boolean_mask[int(np.flatnonzero(sel)[-1])] = False          # window kept, peak rejected: the two masks differ
        recs = [rp.mk_record(*rp.gen_window(rng, N=100, dt=0.01, scale=1.0)) for _ in range(k)]
        snap = deep_snapshot(h)
        rs = [rp.snapshot_record(r) for r in recs]
        raised = False
        try:
            fig, axs = hvsrpy.plot_pre_and_post_rejection(recs, h)
        except ValueError:
            raised = True
        if raise_case and not raised:
            cl.fail("bounded.C20.pre_post_clause", "the configuration built to make the all-accepted panel fail did not raise: this case no longer tests the restore on the error path",
                    signature="harness:raising-configuration-does-not-raise")
            return
        cl.case((j, raise_case, raised))
        try:
            if deep_snapshot(h) != snap:
                cl.fail("hvsrpy.postprocessing.plot_pre_and_post_rejection", f"the accept masks / object are not what they were before the call (exception raised: {raised})",
                        signature="prepost:frame", raised=raised, window_mask=h.valid_window_boolean_mask.astype(int), peak_mask=h.valid_peak_boolean_mask.astype(int))
                return
            if any(not rp.same_snapshot(a, rp.snapshot_record(r)) for a, r in zip(rs, recs)):
                cl.fail("hvsrpy.postprocessing.plot_pre_and_post_rejection", "recordings changed", signature="prepost:records")
                return
            if not raised:
                ax_after = axs[3]
                acc = lines_like(ax_after, DK["individual_valid_hvsr_curve"])
                rej = lines_like(ax_after, DK["individual_invalid_hvsr_curve"])
                if len(acc) != int(h.valid_window_boolean_mask.sum()) or len(rej) != int((~h.valid_window_boolean_mask).sum()):
                    cl.fail("hvsrpy.postprocessing.plot_pre_and_post_rejection", "the 'After Rejection' panel does not show one accepted-style line per accepted and one rejected-style line per rejected window",
                            signature="prepost:after-panel")
                    return
                pk = lines_like(ax_after, DK["peak_individual_valid_hvsr_curve"])
                xs = np.concatenate([p.get_xdata() for p in pk]) if pk else np.array([])
                if not np.array_equal(xs, h._main_peak_frq[h.valid_peak_boolean_mask]):
                    cl.fail("hvsrpy.postprocessing.plot_pre_and_post_rejection", "accepted peak markers of the 'After Rejection' panel", signature="prepost:peaks")
                    return
        finally:
            plt.close("all")


CLAUSES = [
    ("bounded:plot_single_panel_hvsr_curves is read-only and draws the object's state (lines per window state, mean, +-1 std, peak markers, fn band)", "bounded",
     "traditional / azimuthal / diffuse objects in random accept/reject states incl. kept-window-rejected-peak, 4 distribution pairs, random option sets", "hvsrpy.postprocessing.plot_single_panel_hvsr_curves",
     (36, 600), single_panel_clause),
    ("bounded:summary table rows == fn statistics, period row == lognormal median / log-std of 1/fn; recordings and azimuthal plots read-only", "bounded", "traditional and azimuthal, both distributions",
     "hvsrpy.postprocessing.summarize_hvsr_statistics", (10, 150), other_functions_clause),
    ("bounded:plot_pre_and_post_rejection leaves masks and object as they were (also when the first panel raises); after-panel shows the state", "bounded",
     "4-7 windows, masks differing between window and peak, the raising configuration every 4th case", "hvsrpy.postprocessing.plot_pre_and_post_rejection", (12, 200), pre_post_clause),
]

if __name__ == "__main__":
    run(CLAUSES)
